#!/venv/bin/python
"""Entry point of every check: /venv/bin/python /verif/check.py <Cxx> --tier quick|thorough [--replay file]"""
import os
import sys

sys.path.insert(0, os.path.dirname(os.path.abspath(__file__)))

from vlib.runner import main  # noqa: E402

if __name__ == '__main__':
    sys.exit(main())
