#!/bin/bash
# Measurement aid, not a check: which lines/branches of the library do the generated cases of the quick tiers reach?
# usage: tools/coverage_map.sh <outdir> [check ids...]   (evidence files are restored afterwards)
out=${1:?outdir}; shift
checks=${*:-C01 C02 C03 C04 C05 C06 C07 C08 C09 C10 C11 C12 C13 C14 C15 C16 C17 C18}
cd "$(dirname "$0")/.."
mkdir -p "$out"
for c in $checks; do
  VERIF_COVERAGE=$out /venv/bin/python check.py $c --tier quick > "$out/$c.log" 2>&1
  echo "$c exit=$?"
done
git checkout -- evidence
cd "$out" && /venv/bin/python -m coverage combine --keep --data-file=.coverage.all .coverage.C* >/dev/null
/venv/bin/python -m coverage report --data-file=.coverage.all --show-missing --include='*/disk_objectstore/*' > report.txt
tail -n 15 report.txt
