#!/usr/bin/env python3
"""Confirm a seeded change and run checks against it.

usage: try_seed.py <tag> [--no-suite] [--tier quick] <check ids...>
  * /tmp/seeds_out/<tag>/{patch.diff,demo.py,notes.md} produced by a sub-agent, worktree /tmp/wt_<tag> (patched)
  * confirms: demo FAILs on the patched worktree, PASSes on /repo HEAD; the stable baseline tests still pass with the patch
  * applies the patch to a fresh scratch worktree of /repo HEAD and runs the checks against it (VERIF_REPO=<worktree>), then removes it
  * stores everything under /verif/seeded/<tag>/ with meta.json
"""
import json
import os
import shutil
import subprocess
import sys
import time

VERIF = os.path.dirname(os.path.dirname(os.path.abspath(__file__)))


def sh(cmd, **kw):
    return subprocess.run(cmd, shell=True, capture_output=True, text=True, **kw)


def main():
    args = sys.argv[1:]
    tag = args.pop(0)
    suite = True
    tier = 'quick'
    if '--no-suite' in args:
        args.remove('--no-suite')
        suite = False
    base = 'HEAD'
    if '--base' in args:
        i = args.index('--base')
        base = args[i + 1]
        del args[i : i + 2]
    if '--tier' in args:
        i = args.index('--tier')
        tier = args[i + 1]
        del args[i : i + 2]
    checks = args
    src = f'/tmp/seeds_out/{tag}'
    wt = f'/tmp/wt_{tag}'
    dest = os.path.join(VERIF, 'seeded', tag)
    os.makedirs(dest, exist_ok=True)
    for name in ('patch.diff', 'demo.py', 'notes.md'):
        if os.path.exists(os.path.join(src, name)):
            shutil.copy(os.path.join(src, name), os.path.join(dest, name))
    meta_path = os.path.join(dest, 'meta.json')
    meta = json.load(open(meta_path)) if os.path.exists(meta_path) else {'id': tag, 'property': tag[:3]}
    ran = meta.setdefault('ran', {})
    tree = f'/tmp/st_{tag}'
    sh(f'git -C /repo worktree remove --force {tree}')
    r = sh(f'git -C /repo worktree add -q --detach {tree} {base}')
    assert r.returncode == 0, r.stderr
    meta['repo_head'] = sh(f'git -C {tree} rev-parse --short HEAD').stdout.strip()
    try:
        has_demo = os.path.exists(os.path.join(dest, 'demo.py'))
        # 1. demo on the clean tree
        if has_demo:
            r = sh(f'PYTHONPATH={tree} /venv/bin/python {dest}/demo.py', cwd='/tmp')
            ran['demo_clean'] = {'exit': r.returncode, 'tail': (r.stdout + r.stderr)[-300:]}
            print('demo on clean tree: exit', r.returncode)
        # 2. patch applies; demo on the patched tree
        r = sh(f'git -C {tree} apply {dest}/patch.diff')
        ran['applies'] = r.returncode == 0
        if r.returncode != 0:
            print('PATCH DOES NOT APPLY', r.stderr)
            json.dump(meta, open(meta_path, 'w'), indent=1)
            return 1
        if has_demo:
            r = sh(f'PYTHONPATH={tree} /venv/bin/python {dest}/demo.py', cwd='/tmp')
            ran['demo_patched'] = {'exit': r.returncode, 'tail': (r.stdout + r.stderr)[-600:]}
            print('demo on patched tree: exit', r.returncode)
        if suite:
            t0 = time.time()
            r = sh(f'PYTHONPATH={tree} /venv/bin/python -m pytest -q -p no:cacheprovider --timeout=900 --continue-on-collection-errors -n 10 '
                   f'--junitxml=/tmp/seed_{tag}.xml', cwd=tree)
            r2 = sh(f'python3 {VERIF}/tools/compare_baseline.py /tmp/seed_{tag}.xml')
            ran['suite'] = {'summary': r.stdout.strip().splitlines()[-1] if r.stdout.strip() else '', 'baseline': r2.stdout.strip(),
                            'ok': r2.returncode == 0, 'wall_s': round(time.time() - t0)}
            print('suite with patch:', ran['suite']['summary'], '|', r2.stdout.strip().splitlines()[0])
            bad = [l.split()[2] for l in r2.stdout.splitlines() if 'NOT PASSING' in l]
            if bad and all(b.startswith('tests.test_concurrency::') for b in bad):
                # timing-sensitive multi-process tests flake when the machine is heavily loaded: re-run that file alone
                r3 = sh(f'PYTHONPATH={tree} /venv/bin/python -m pytest -q -p no:cacheprovider --timeout=900 -n 4 tests/test_concurrency.py', cwd=tree)
                tail = r3.stdout.strip().splitlines()[-1] if r3.stdout.strip() else ''
                ran['suite']['concurrency_rerun_alone'] = tail
                ran['suite']['ok'] = r3.returncode == 0
                print('  test_concurrency.py alone:', tail)
        results = meta.setdefault('checks', {})
        for check in checks:
            t0 = time.time()
            # equivalent to `git -C /repo apply patch; check; git -C /repo checkout -- .`, without touching /repo
            r = sh(f'VERIF_REPO={tree} /venv/bin/python {VERIF}/check.py {check} --tier {tier}', cwd=VERIF)
            viol = [l for l in r.stdout.splitlines() if l.startswith('VIOLATION')]
            sigs = [l.strip()[:400] for l in r.stdout.splitlines() if l.startswith('  ')][:3]
            results[f'{check}:{tier}'] = {'exit': r.returncode, 'violations': len(viol), 'first': sigs, 'wall_s': round(time.time() - t0)}
            print(f'{check} ({tier}): exit {r.returncode}, {len(viol)} violations', [x[:200] for x in sigs[:1]])
    finally:
        sh(f'git -C /repo worktree remove --force {tree}')
    json.dump(meta, open(meta_path, 'w'), indent=1)
    return 0


if __name__ == '__main__':
    sys.exit(main())
