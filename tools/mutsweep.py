#!/usr/bin/env python3
"""Systematic sensitivity measurement (not a registered check): small syntactic mutants of the library, filtered by the
repository's own test suite, then run against the quick tiers.

  mutsweep.py gen  <workdir> <n> <seed> [coverage-data-file]   sample n mutants of lines the checks execute -> <workdir>/mutants.jsonl
  mutsweep.py suite <workdir> [jobs]                            which mutants still pass the repository's test suite
  mutsweep.py checks <workdir>                                  run the quick tiers against the survivors (stop at the first alarm)
  mutsweep.py report <workdir>                                  markdown summary

Nothing is ever changed in /repo: mutants live in private worktrees <workdir>/tree* (VERIF_REPO points the checks there).
"""
import ast
import json
import os
import random
import subprocess
import sys
import time

VERIF = os.path.dirname(os.path.dirname(os.path.abspath(__file__)))
FILES = ('disk_objectstore/container.py', 'disk_objectstore/utils.py', 'disk_objectstore/backup_utils.py', 'disk_objectstore/database.py')
ALL = [f'C{i:02d}' for i in range(1, 19)]
# cheap and broad first
ORDER = ['C02', 'C03', 'C09', 'C11', 'C10', 'C13', 'C01', 'C07', 'C16', 'C14', 'C08', 'C12', 'C18', 'C04', 'C17', 'C05', 'C06', 'C15']

CMP = {ast.Lt: ast.LtE, ast.LtE: ast.Lt, ast.Gt: ast.GtE, ast.GtE: ast.Gt, ast.Eq: ast.NotEq, ast.NotEq: ast.Eq, ast.In: ast.NotIn,
       ast.NotIn: ast.In, ast.Is: ast.IsNot, ast.IsNot: ast.Is}
SKIP_CALLS = ('LOGGER', 'logger', 'warnings', 'print', 'callback', 'progress', 'click', 'echo')


def sh(cmd, **kw):
    return subprocess.run(cmd, shell=True, capture_output=True, text=True, **kw)


def run_bounded(cmd, cwd, seconds):
    """Like sh(), but the whole process group is killed after `seconds` (a mutant may make the library loop for ever)."""
    import signal  # pylint: disable=import-outside-toplevel

    with subprocess.Popen(cmd, shell=True, stdout=subprocess.PIPE, stderr=subprocess.PIPE, text=True, cwd=cwd, start_new_session=True) as proc:
        try:
            out, err = proc.communicate(timeout=seconds)
        except subprocess.TimeoutExpired:
            os.killpg(proc.pid, signal.SIGKILL)
            proc.communicate()
            return None
    return subprocess.CompletedProcess(cmd, proc.returncode, out, err)


class Collector(ast.NodeVisitor):
    """Collects (node, kind, replacement source) candidates."""

    def __init__(self, src):
        self.src = src
        self.out = []
        self.func = []
        self.skip_depth = 0

    def seg(self, node):
        return ast.get_source_segment(self.src, node)

    def add(self, node, kind, new_src):
        old = self.seg(node)
        if old is None or old == new_src:
            return
        self.out.append({'line': node.lineno, 'col': node.col_offset, 'end_line': node.end_lineno, 'end_col': node.end_col_offset,
                         'kind': kind, 'old': old, 'new': new_src, 'func': '.'.join(self.func)})

    def visit_FunctionDef(self, node):
        self.func.append(node.name)
        for child in node.body:
            self.visit(child)
        self.func.pop()

    visit_AsyncFunctionDef = visit_FunctionDef

    def visit_ClassDef(self, node):
        self.func.append(node.name)
        for child in node.body:
            self.visit(child)
        self.func.pop()

    def visit_Raise(self, node):  # messages of exceptions are not behaviour the properties talk about
        return

    def visit_Assert(self, node):
        return

    def visit_AnnAssign(self, node):
        if node.value is not None:
            self.visit(node.value)

    def visit_Compare(self, node):
        if len(node.ops) == 1 and type(node.ops[0]) in CMP:
            new = ast.Compare(left=node.left, ops=[CMP[type(node.ops[0])]()], comparators=node.comparators)
            self.add(node, 'cmp', '(' + ast.unparse(new) + ')')
        self.generic_visit(node)

    def visit_BoolOp(self, node):
        new = ast.BoolOp(op=ast.Or() if isinstance(node.op, ast.And) else ast.And(), values=node.values)
        self.add(node, 'boolop', '(' + ast.unparse(new) + ')')
        self.generic_visit(node)

    def visit_BinOp(self, node):
        swap = {ast.Add: ast.Sub, ast.Sub: ast.Add, ast.FloorDiv: ast.Mult, ast.Mod: ast.FloorDiv}
        strs = [x for x in (node.left, node.right) if isinstance(x, ast.Constant) and isinstance(x.value, (str, bytes))]
        if type(node.op) in swap and not strs:
            new = ast.BinOp(left=node.left, op=swap[type(node.op)](), right=node.right)
            self.add(node, 'arith', '(' + ast.unparse(new) + ')')
        self.generic_visit(node)

    def visit_UnaryOp(self, node):
        if isinstance(node.op, ast.Not):
            self.add(node, 'not-drop', '(' + ast.unparse(node.operand) + ')')
        self.generic_visit(node)

    def visit_Constant(self, node):
        if isinstance(node.value, bool):
            self.add(node, 'bool-const', str(not node.value))
        elif isinstance(node.value, int):
            self.add(node, 'int-const', str(node.value + 1))

    def _test(self, node):
        self.add(node.test, 'negate-cond', '(not (' + ast.unparse(node.test) + '))')

    def visit_If(self, node):
        self._test(node)
        self.generic_visit(node)

    def visit_While(self, node):
        if not (isinstance(node.test, ast.Constant)):
            self._test(node)
        self.generic_visit(node)

    def visit_IfExp(self, node):
        self._test(node)
        self.generic_visit(node)

    def visit_Expr(self, node):
        if isinstance(node.value, ast.Constant):  # docstring
            return
        if isinstance(node.value, ast.Call):
            text = self.seg(node) or ''
            if not any(text.lstrip().startswith(s) or f'.{s}' in text.split('(')[0] for s in SKIP_CALLS):
                self.add(node, 'drop-call', 'pass')
        self.generic_visit(node)

    def visit_AugAssign(self, node):
        self.add(node, 'drop-augassign', 'pass')
        self.generic_visit(node)

    def visit_Break(self, node):
        self.add(node, 'break-continue', 'continue')

    def visit_Continue(self, node):
        self.add(node, 'continue-break', 'break')

    def visit_Return(self, node):
        if node.value is not None:
            self.generic_visit(node)

    def visit_keyword(self, node):
        self.generic_visit(node)


def candidates(repo):
    out = []
    for rel in FILES:
        src = open(os.path.join(repo, rel), encoding='utf8').read()
        coll = Collector(src)
        coll.visit(ast.parse(src))
        for cand in coll.out:
            cand['file'] = rel
            out.append(cand)
    return out


def mutate_source(src, cand):
    lines = src.split('\n')
    # offsets are utf8 byte offsets; the library sources are ASCII on the mutated lines (checked)
    first, last = cand['line'] - 1, cand['end_line'] - 1
    prefix = lines[first].encode('utf8')[: cand['col']].decode('utf8')
    suffix = lines[last].encode('utf8')[cand['end_col'] :].decode('utf8')
    new_lines = lines[:first] + [prefix + cand['new'] + suffix] + lines[last + 1 :]
    return '\n'.join(new_lines)


def covered_lines(datafile, repo):
    """{file: {line: [checks...]}} from coverage data files .coverage.Cxx.* next to `datafile` (or a combined one)."""
    sys.path.insert(0, '/venv/lib/python3.12/site-packages')
    import coverage  # pylint: disable=import-outside-toplevel,import-error
    import glob  # pylint: disable=import-outside-toplevel

    per = {}
    base = os.path.dirname(datafile)
    for check in ALL:
        for path in glob.glob(os.path.join(base, f'.coverage.{check}.*')):
            data = coverage.CoverageData(basename=path)
            data.read()
            for fname in data.measured_files():
                rel = 'disk_objectstore/' + os.path.basename(fname)
                for line in data.lines(fname) or []:
                    per.setdefault(rel, {}).setdefault(line, set()).add(check)
    return per


def cmd_gen(work, n, seed, datafile):
    os.makedirs(work, exist_ok=True)
    cands = candidates('/repo')
    cov = covered_lines(datafile, '/repo') if datafile else None
    rnd = random.Random(seed)
    usable = []
    src_lines = {rel: open(os.path.join('/repo', rel), encoding='utf8').read().split('\n') for rel in FILES}
    for cand in cands:
        text = ' '.join(src_lines[cand['file']][cand['line'] - 1 : cand['end_line']])
        if any(word in text for word in ('callback', 'since_last_update', 'update_every', 'LOGGER', 'logger.')):
            continue  # progress reporting and logging are not what the listed properties are about
        if cov is not None:
            checks = set()
            for line in range(cand['line'], cand['end_line'] + 1):
                checks |= cov.get(cand['file'], {}).get(line, set())
            if not checks:
                continue
            cand['covered_by'] = sorted(checks)
        usable.append(cand)
    print(f'{len(cands)} candidate mutants, {len(usable)} on lines executed by the checks')
    rnd.shuffle(usable)
    # at most 2 mutants per source line so that the sample spreads
    per_line = {}
    picked = []
    for cand in usable:
        key = (cand['file'], cand['line'])
        if per_line.get(key, 0) >= 2:
            continue
        per_line[key] = per_line.get(key, 0) + 1
        picked.append(cand)
        if len(picked) >= n:
            break
    with open(os.path.join(work, 'mutants.jsonl'), 'w', encoding='utf8') as fhandle:
        for i, cand in enumerate(picked):
            cand['id'] = f'M{i:03d}'
            fhandle.write(json.dumps(cand) + '\n')
    print(f'{len(picked)} mutants written')


def load(work):
    return [json.loads(line) for line in open(os.path.join(work, 'mutants.jsonl'), encoding='utf8')]


def results(work, name):
    path = os.path.join(work, name)
    out = {}
    if os.path.exists(path):
        for line in open(path, encoding='utf8'):
            rec = json.loads(line)
            out[rec['id']] = rec
    return out


def make_tree(work, name):
    tree = os.path.join(work, name)
    sh(f'git -C /repo worktree remove --force {tree}')
    res = sh(f'git -C /repo worktree add -q --detach {tree} HEAD')
    assert res.returncode == 0, res.stderr
    return tree


def apply(tree, cand):
    sh(f'git -C {tree} checkout -- .')
    path = os.path.join(tree, cand['file'])
    src = open(path, encoding='utf8').read()
    new = mutate_source(src, cand)
    try:
        compile(new, path, 'exec')
    except SyntaxError as exc:
        return f'syntax: {exc}'
    open(path, 'w', encoding='utf8').write(new)
    return None


def deselects(work):
    """Tests that do not pass on the unchanged tree in this sandbox (environment), from one clean run."""
    path = os.path.join(work, 'deselect.json')
    if os.path.exists(path):
        return json.load(open(path))
    tree = make_tree(work, 'tree_clean')
    xml = os.path.join(work, 'clean.xml')
    sh(f'PYTHONPATH={tree} /venv/bin/python -m pytest -q -p no:cacheprovider --timeout=900 -n 12 --junitxml={xml}', cwd=tree)
    import xml.etree.ElementTree as ET  # pylint: disable=import-outside-toplevel

    bad = []
    for case in ET.parse(xml).getroot().iter('testcase'):
        if case.find('failure') is not None or case.find('error') is not None:
            bad.append(case.get('classname').replace('.', '/') + '.py::' + case.get('name'))
    sh(f'git -C /repo worktree remove --force {tree}')
    json.dump(bad, open(path, 'w'))
    return bad


def cmd_suite(work, jobs):
    muts = load(work)
    done = results(work, 'suite.jsonl')
    bad = deselects(work)
    print(f'{len(bad)} tests deselected (not passing on the clean tree here)')
    desel = ' '.join(f"--deselect '{b}'" for b in bad)
    tree = make_tree(work, 'tree_suite')
    try:
        for cand in muts:
            if cand['id'] in done:
                continue
            t0 = time.time()
            err = apply(tree, cand)
            if err:
                rec = {'id': cand['id'], 'suite': 'invalid', 'why': err}
            else:
                res = sh(f'PYTHONPATH={tree} /venv/bin/python -m pytest -x -q -p no:cacheprovider --timeout=600 -n {jobs} {desel}', cwd=tree)
                tail = (res.stdout.strip().splitlines() or [''])[-1]
                status = 'survived' if res.returncode == 0 else 'killed'
                if status == 'killed' and 'test_concurrency' in res.stdout and res.stdout.count('FAILED') + res.stdout.count('ERROR') <= 3:
                    res2 = sh(f'PYTHONPATH={tree} /venv/bin/python -m pytest -x -q -p no:cacheprovider --timeout=600 {desel}', cwd=tree)
                    if res2.returncode == 0:
                        status, tail = 'survived', 'after serial re-run: ' + (res2.stdout.strip().splitlines() or [''])[-1]
                failed = [l for l in res.stdout.splitlines() if l.startswith(('FAILED', 'ERROR'))][:3]
                rec = {'id': cand['id'], 'suite': status, 'tail': tail[-200:], 'failed': failed, 'seconds': round(time.time() - t0)}
            with open(os.path.join(work, 'suite.jsonl'), 'a', encoding='utf8') as fhandle:
                fhandle.write(json.dumps(rec) + '\n')
            print(cand['id'], cand['file'].split('/')[-1], cand['line'], cand['kind'], rec['suite'], rec.get('seconds'), flush=True)
    finally:
        sh(f'git -C /repo worktree remove --force {tree}')


def cmd_checks(work, only=None, status='survived', outfile='checks.jsonl', max_checks=18):
    muts = {m['id']: m for m in load(work)}
    suite = results(work, 'suite.jsonl')
    done = results(work, outfile)
    tree = make_tree(work, 'tree_checks')
    try:
        for mid, cand in muts.items():
            if suite.get(mid, {}).get('suite') != status or mid in done:
                continue
            if only and mid not in only:
                continue
            err = apply(tree, cand)
            assert not err
            order = [c for c in ORDER if c in cand.get('covered_by', ALL)][:max_checks]
            rec = {'id': mid, 'ran': [], 'killed_by': None, 'harness': []}
            t0 = time.time()
            for check in order:
                res = run_bounded(f'VERIF_REPO={tree} /venv/bin/python {VERIF}/check.py {check} --tier quick', cwd=VERIF, seconds=420)
                if res is None:
                    rec['ran'].append(check)
                    rec['killed_by'] = check
                    rec['violation'] = 'TIMEOUT: the check did not terminate within 420 s (a hang of the library under the generated cases)'
                    break
                rec['ran'].append(check)
                if res.returncode == 1:
                    vio = [l for l in res.stdout.splitlines() if l.startswith('VIOLATION')]
                    sig = ''
                    try:
                        ev = json.load(open(os.path.join(VERIF, 'evidence', f'{check}.json')))
                        sig = json.dumps(ev.get('violations', ev.get('details', {}).get('violations', '')))[:400]
                    except Exception:  # pylint: disable=broad-except
                        pass
                    rec['killed_by'] = check
                    rec['violation'] = (vio[:1] or [''])[0]
                    rec['sig'] = sig
                    rec['stdout'] = res.stdout[-600:]
                    break
                if res.returncode != 0:
                    rec['harness'].append({'check': check, 'tail': (res.stdout + res.stderr)[-800:]})
            rec['seconds'] = round(time.time() - t0)
            with open(os.path.join(work, outfile), 'a', encoding='utf8') as fhandle:
                fhandle.write(json.dumps(rec) + '\n')
            print(mid, cand['file'].split('/')[-1], cand['line'], cand['kind'], 'killed by', rec['killed_by'], 'harness', [h['check'] for h in rec['harness']], rec['seconds'], flush=True)
    finally:
        sh(f'git -C /repo worktree remove --force {tree}')
        sh(f'git -C {VERIF} checkout -- evidence')


def cmd_report(work):
    muts = load(work)
    suite = results(work, 'suite.jsonl')
    checks = results(work, 'checks.jsonl')
    print('| id | where | mutation | suite | checks |')
    print('|---|---|---|---|---|')
    for cand in muts:
        mid = cand['id']
        st = suite.get(mid, {}).get('suite', '-')
        ck = checks.get(mid)
        col = '-' if ck is None else (f"killed by {ck['killed_by']}" if ck['killed_by'] else f"survived {len(ck['ran'])} checks")
        if ck and ck['harness']:
            col += ' (harness error in ' + ','.join(h['check'] for h in ck['harness']) + ')'
        old = cand['old'].replace('\n', ' ')[:50].replace('|', '\\|')
        new = cand['new'].replace('\n', ' ')[:50].replace('|', '\\|')
        print(f"| {mid} | {cand['file'].split('/')[-1]}:{cand['line']} `{cand['func']}` | {cand['kind']}: `{old}` -> `{new}` | {st} | {col} |")


def main():
    cmd, work = sys.argv[1], sys.argv[2]
    if cmd == 'gen':
        cmd_gen(work, int(sys.argv[3]), int(sys.argv[4]), sys.argv[5] if len(sys.argv) > 5 else None)
    elif cmd == 'suite':
        cmd_suite(work, int(sys.argv[3]) if len(sys.argv) > 3 else 12)
    elif cmd == 'checks':
        cmd_checks(work, set(sys.argv[3:]) or None)
    elif cmd == 'checks-suite-killed':
        # sensitivity only: mutants the repository's suite already kills, against the 5 cheapest checks covering the line
        cmd_checks(work, None, status='killed', outfile='checks_killed.jsonl', max_checks=5)
    elif cmd == 'report':
        cmd_report(work)


if __name__ == '__main__':
    main()
