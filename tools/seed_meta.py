#!/usr/bin/env python3
"""Fill the descriptive fields of seeded/<id>/meta.json from the table in DESIGN.md section 11."""
import json
import os
import re

VERIF = os.path.dirname(os.path.dirname(os.path.abspath(__file__)))
rows = {}
for line in open(os.path.join(VERIF, 'DESIGN.md'), encoding='utf8'):
    cells = [c.strip() for c in line.strip().strip('|').split('|')]
    if len(cells) == 7 and re.fullmatch(r'C\d\d[a-z]', cells[0]):
        rows[cells[0]] = tuple(cells)
for tag in sorted(os.listdir(os.path.join(VERIF, 'seeded'))):
    path = os.path.join(VERIF, 'seeded', tag, 'meta.json')
    if not os.path.exists(path):
        continue
    meta = json.load(open(path))
    if tag in rows:
        _, prop, change, needs, caught, missed, strengthened = rows[tag]
        meta.update({'property': prop, 'change': change, 'needs_to_manifest': needs, 'caught_by_quick_tier': caught,
                     'not_seen_by': missed, 'strengthened': strengthened})
    elif tag.startswith('N'):
        for line in open(os.path.join(VERIF, 'DESIGN.md'), encoding='utf8'):
            cells = [c.strip() for c in line.strip().strip('|').split('|')]
            if len(cells) == 3 and cells[0] == tag:
                meta.update({'kind': 'negative control: property-preserving change, every check must stay quiet', 'change': cells[1],
                             'result': cells[2]})
    else:
        print('no DESIGN row for', tag)
    meta['how_applied'] = ('tools/try_seed.py: patch applied to a fresh scratch worktree of /repo HEAD, demo run on clean and patched '
                           'tree, full test-suite compared with the 358-test baseline, checks run with VERIF_REPO=<worktree> '
                           '(equivalent to git -C /repo apply; check; git -C /repo checkout -- .)')
    json.dump(meta, open(path, 'w'), indent=1)
print(len(rows), 'rows')
