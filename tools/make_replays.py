#!/usr/bin/env python3
"""(Re)create the saved regression cases under /verif/replays/<Cxx>/ : each repaired defect (fix commit reverted in a scratch
worktree) and each seeded change is run against the checks that catch it; the first shrunk case per signature is saved."""
import glob
import json
import os
import shutil
import subprocess
import sys

VERIF = os.path.dirname(os.path.dirname(os.path.abspath(__file__)))
FIXES = {
    'F1': ('c97925c', ['C09', 'C03']),
    'F2': ('a39c267', ['C18', 'C06']),
    'F3': ('5d216d6', ['C07']),
    'F4': ('5e2d7db', ['C08']),
    'F5': ('7925699', ['C15']),
    'F6': ('e087858', ['C14', 'C02']),
    'F7': ('540a981', ['C11']),
    'F8': ('0fc7aaa', ['C15']),
    'F9': ('e7c63eb', ['C07']),
}


def sh(cmd, **kw):
    return subprocess.run(cmd, shell=True, capture_output=True, text=True, **kw)


def collect(tag, tree, checks, max_per_check=2):
    for check in checks:
        shutil.rmtree(os.path.join(VERIF, 'out', 'replays'), ignore_errors=True)
        res = sh(f'VERIF_REPO={tree} /venv/bin/python {VERIF}/check.py {check} --tier quick', cwd=VERIF)
        files = sorted(glob.glob(os.path.join(VERIF, 'out', 'replays', f'{check}-*.json')))
        seen = set()
        kept = 0
        for path in files:
            data = json.load(open(path))
            if data.get('not_reproduced') or data['sig'] in seen:
                continue
            seen.add(data['sig'])
            dest_dir = os.path.join(VERIF, 'replays', check)
            os.makedirs(dest_dir, exist_ok=True)
            dest = os.path.join(dest_dir, f'{tag}-{kept}.json')
            data['origin'] = tag
            data.pop('log', None)
            json.dump(data, open(dest, 'w'), indent=1, default=str)
            # must hold on the current tree, otherwise it is not a regression case
            ok = sh(f'/venv/bin/python {VERIF}/check.py {check} --replay {dest}', cwd=VERIF)
            if ok.returncode != 0:
                print(f'  {dest}: does NOT hold on the clean tree ({ok.stdout[-200:]}) - dropped')
                os.remove(dest)
                continue
            kept += 1
            if kept >= max_per_check:
                break
        print(f'{tag} {check}: exit {res.returncode}, saved {kept}')


def main():
    which = sys.argv[1:] or list(FIXES) + ['seeds']
    for tag in which:
        tree = f'/tmp/rp_{tag}'
        sh(f'git -C /repo worktree remove --force {tree}')
        if tag in FIXES:
            commit, checks = FIXES[tag]
            sh(f'git -C /repo worktree add -q --detach {tree} HEAD')
            r = sh(f'git -C {tree} revert --no-commit {commit}')
            if r.returncode != 0:
                print(tag, 'revert failed', r.stderr[-200:])
                sh(f'git -C /repo worktree remove --force {tree}')
                continue
            collect(tag, tree, checks)
            sh(f'git -C /repo worktree remove --force {tree}')
        elif tag == 'seeds' or os.path.isdir(os.path.join(VERIF, 'seeded', tag)):
            for seed in sorted(os.listdir(os.path.join(VERIF, 'seeded'))) if tag == 'seeds' else [tag]:
                meta = json.load(open(os.path.join(VERIF, 'seeded', seed, 'meta.json')))
                checks = [c.strip() for c in meta.get('caught_by_quick_tier', '').replace('(', ',').split(',') if c.strip().startswith('C') and len(c.strip()) == 3][:1]
                if not checks:
                    continue
                sh(f'git -C /repo worktree remove --force {tree}')
                sh(f'git -C /repo worktree add -q --detach {tree} HEAD')
                r = sh(f'git -C {tree} apply {VERIF}/seeded/{seed}/patch.diff')
                if r.returncode == 0:
                    collect(seed, tree, checks, max_per_check=1)
                sh(f'git -C /repo worktree remove --force {tree}')


if __name__ == '__main__':
    main()
