#!/usr/bin/env python3
"""Compare a junit xml of the repository test-suite with /root/.vp/BASELINE.json (all stable_pass tests must pass)."""
import json
import sys
import xml.etree.ElementTree as ET

base = json.load(open('/root/.vp/BASELINE.json'))
want = set(base['stable_pass'])
tree = ET.parse(sys.argv[1])
status = {}
for case in tree.iter('testcase'):
    name = f"{case.get('classname')}::{case.get('name')}"
    bad = any(child.tag in ('failure', 'error') for child in case)
    skipped = any(child.tag == 'skipped' for child in case)
    status[name] = 'fail' if bad else 'skip' if skipped else 'pass'
missing = sorted(n for n in want if status.get(n) != 'pass')
print(f'stable_pass={len(want)} passing_now={sum(1 for n in want if status.get(n) == "pass")} not_passing={len(missing)}')
for name in missing:
    print('  NOT PASSING:', name, status.get(name))
sys.exit(1 if missing else 0)
