#!/usr/bin/env python3
"""Prompt for a sub-agent that writes a property-PRESERVING change (negative control: the checks must stay quiet on it)."""
import json
import sys

tag, focus = sys.argv[1], sys.argv[2]
props = [json.loads(l) for l in open('/verif/properties.jsonl')]
wt = f'/tmp/wt_{tag}'
out = f'/tmp/seeds_out/{tag}'
text = '\n'.join(f"  [{p['id']}] {p['title']}: {p['statement']}" for p in props)
print(f"""You are helping to test a verification effort with a NEGATIVE CONTROL: a realistic change to a library that does NOT break any of its guarantees.

The library is aiidateam/disk-objectstore (pure Python: a content-addressed on-disk object store with loose files, append-only pack files indexed by SQLite, packing, repacking, compression, validation, rsync backup). A scratch git worktree of it is at {wt}. Work ONLY inside {wt} and {out} (create it). Never modify /repo, never read or write anything under /verif, do not create other worktrees.

These are the guarantees users rely on; your change must keep EVERY ONE of them true, for every input, history, interleaving, crash point, power loss and I/O fault they quantify over:
{text}

YOUR TASK: make a realistic, NON-TRIVIAL change to the library source under {wt}/disk_objectstore/ of the kind a maintainer would merge - a refactoring, a performance tweak, a robustness improvement, different but equivalent internals - in this area: {focus}
The change must really alter how the code works internally (different calls, different order of independent steps, different sizes of internal buffers or batches, different temporary names, extra safety steps, equivalent SQL, ...), typically 10-60 changed lines, possibly in several places - NOT just comments, renames or formatting - while every guarantee above still holds. Think carefully about crash points, power loss (only fsynced data survives), concurrent readers/packer and I/O faults before choosing: if in doubt, choose something safer. Do not edit the tests. Do not add new files to the package.

HOW TO RUN THINGS: /venv/bin/python has disk_objectstore installed in editable mode pointing at /repo, so you MUST put the worktree first: always run with PYTHONPATH={wt}, e.g.
  cd {wt} && PYTHONPATH={wt} /venv/bin/python -c "import disk_objectstore; print(disk_objectstore.__file__)"
  cd {wt} && PYTHONPATH={wt} /venv/bin/python -m pytest -q -p no:cacheprovider -n 4 --timeout=900 2>&1 | tail -20   # full suite
At HEAD exactly these 12 tests fail for environment reasons and must remain the only failures: tests/test_backup.py::test_inaccessible_path, tests/test_cli.py::test_backup[True-None], tests/test_cli.py::test_backup_repeated[True], tests/test_cli.py::test_main_command_missing_command, tests/test_cli.py::test_main_command_no_params, tests/test_cli.py::test_validate[True], tests/test_cli.py::test_validate_no_progressbar[False], tests/test_cli.py::test_validate_no_progressbar[True], tests/test_container.py::test_clean_storage_with_duplicates, tests/test_container.py::test_clean_storage_with_duplicates_all_corrupt, tests/test_container.py::test_clean_storage_with_duplicates_original_deleted, tests/test_container.py::test_delete_with_duplicates. The machine is shared and sometimes heavily loaded; a timing-sensitive test in tests/test_concurrency.py may fail spuriously under load - re-run that file alone to tell a flake from a real regression. There is no network. Do not install anything.

DELIVERABLES in {out}/ :
  patch.diff  - output of `git -C {wt} diff`
  notes.md    - what you changed and, guarantee by guarantee where relevant, why it still holds (especially crash / power-loss / concurrency / I/O-fault reasoning), plus the test-suite result.
Leave the worktree with your patch applied. Finish with a short summary.""")
