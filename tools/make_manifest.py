#!/venv/bin/python
"""Generate /verif/MANIFEST.json from the property modules present under props/ (keeps it valid at all times)."""
import importlib
import json
import os
import sys

VERIF = os.path.dirname(os.path.dirname(os.path.abspath(__file__)))
sys.path.insert(0, VERIF)

ALL = [f'C{i:02d}' for i in range(1, 19)]

META = {
    'C01': ('exploration', '3 C01', 'generated inputs x configurations vs hashlib round-trip oracle (Hypothesis @given) + enumerated product sweep'),
    'C02': ('exploration', '3 C02', 'model-based testing: generated operation histories (incl. failing caller streams with retry, reads nested inside iterations, lowered internal thresholds) vs dict reference model, all views compared after every step'),
    'C03': ('exploration', '3 C03', 'generated operation histories; invariant over the raw on-disk state read with sqlite3+zlib only (independent reader)'),
    'C04': ('exploration', '3 C04', 'generated schedules on a deterministic baton scheduler (threads yield at every file-system call / SQL statement) vs acknowledged-set oracle'),
    'C05': ('fault_enumeration', '3 C05', 'generated (pre-state, same-handle warm-up calls, operation) cases x EVERY I/O event of the operation as kill point: the post-kill disk image is photographed before each event (+ torn writes), cross-checked against real fork+_exit kills; raw reader + fresh handle oracle'),
    'C06': ('fault_enumeration', '3 C06', 'as C05 with the power-loss image (every file reverted to its last fsynced content, directory operations and committed transactions kept) built at every I/O event and after the call returned'),
    'C07': ('exploration', '3 C07', 'generated read/seek/tell programs in lock-step against an in-memory reference; exhaustive short programs'),
    'C08': ('exploration', '3 C08', 'model-based testing over multi-handle sequential histories with queries as steps (incl. a pack by another handle between two yields of a bulk iteration) vs dict model'),
    'C09': ('exploration', '3 C09', 'generated histories biased to repeated contents; raw-reader invariants on copies, unreferenced bytes and pack growth'),
    'C10': ('exploration', '3 C10', 'generated pack/repack mode chains vs model + raw-row bookkeeping oracle'),
    'C11': ('exploration', '3 C11', 'generated histories with deletions and repacks vs model + raw pack-layout oracle'),
    'C12': ('exploration', '3 C12', 'generated histories (no false positives) + generated and exhaustive single damages judged against read-back ground truth (no false negatives)'),
    'C13': ('exploration', '3 C13', 'generated multi-handle histories; before/after byte comparison of every pack file at every step'),
    'C14': ('exploration', '3 C14', 'generated source/destination containers and requests vs model + raw-row/pack-growth oracle'),
    'C15': ('exploration', '3 C15', 'generated placements of concurrent client steps between/inside the phases of the real backup (real rsync, full and incremental, incl. a previous backup of the same second); backup opened as a container vs model'),
    'C16': ('exploration', '3 C16', 'differential testing of bulk APIs under lowered thresholds vs single-key operations; exhaustive enumeration of merge helpers vs set algebra'),
    'C17': ('fault_enumeration', '3 C17', 'generated (pre-state, same-handle warm-up calls, operation) cases x EVERY I/O event as injected OSError/OperationalError (in-process fault injection); raw reader + fresh handle + rerun oracle'),
    'C18': ('exploration', '3 C18', 'generated single- and multi-handle histories (incl. failing input streams and reads nested in iterations) with a collector-independent /proc/self/fd census; open-file counting during bulk reads; tracemalloc metamorphic size scaling'),
}

LEVEL_TEXT = {
    'exploration': 'Sampled generated cases (Hypothesis, 16 seeded shards) against an explicit oracle, with measured class coverage; finite '
    'sub-spaces named in the rule are enumerated exhaustively. Gives evidence on everything explored, never absence; right level '
    'because the property quantifies over an unbounded input/history/schedule space that only search can sample.',
    'fault_enumeration': 'For every generated (pre-state, operation) pair EVERY traced I/O event of the operation is used as a fault point '
    '(kill / power-loss image / injected error), so within a pair the crash-point space is covered completely; pairs are sampled.',
}

NOT_YET = {}


def main():
    checks = []
    not_applicable = []
    for prop in ALL:
        path = os.path.join(VERIF, 'props', f'{prop.lower()}.py')
        if not os.path.exists(path):
            not_applicable.append({'property_id': prop, 'reason': NOT_YET.get(prop, 'check not built yet in this revision of /verif (design in DESIGN.md); not claimed')})
            continue
        level, ref, technique = META[prop]
        module = importlib.import_module(f'props.{prop.lower()}')
        checks.append(
            {
                'property_id': prop,
                'quick_cmd': f'/venv/bin/python /verif/check.py {prop} --tier quick',
                'thorough_cmd': f'/venv/bin/python /verif/check.py {prop} --tier thorough',
                'evidence_file': f'/verif/evidence/{prop}.json',
                'replay_cmd_template': f'/venv/bin/python /verif/check.py {prop} --replay {{path}}',
                'engine': 'hypothesis-harness',
                'level_claimed': {'category': level, 'text': LEVEL_TEXT[level], 'design_ref': f'DESIGN.md section {ref}'},
                'level_note': 'Trusted: ' + '; '.join(module.ASSUMPTIONS) + '; CPython io, SQLite, zlib, hashlib.',
                'technique': technique,
            }
        )
    manifest = {
        'version': 1,
        'setup_cmd': '/venv/bin/python -c "import hypothesis" 2>/dev/null || /venv/bin/pip install --no-index --find-links /opt/veriftools/wheels hypothesis',
        'hooks': {
            'guard': 'DISK_OBJECTSTORE_VERIF',
            'enable': 'no source hooks are needed: the harness interposes on builtins.open / os.* / SQLAlchemy events inside its own '
            'process (vlib/shim.py), so /repo is exercised exactly as committed; the guard variable is reserved and unused',
            'baseline_off_cmd': 'cd /repo && /venv/bin/python -m pytest -ra -q -p no:cacheprovider --timeout=900 --continue-on-collection-errors',
            'source_commits': [],
            'add_only': True,
        },
        'engines': [
            {
                'name': 'hypothesis-harness',
                'path': '/verif/check.py',
                'serves_properties': [c['property_id'] for c in checks],
                'kind_free_text': 'property-based testing: Hypothesis-generated cases / operation histories / schedules / fault points, '
                'explicit oracles (dict model, hashlib, raw sqlite3+zlib reader, in-memory file), 16 seeded shard processes, '
                'own ddmin shrinker, JSON replay files',
            }
        ],
        'checks': checks,
        'not_applicable': not_applicable,
        'notes': 'VERIF_SEED selects the Hypothesis seeds of all shards; exit 2 = harness error (never a violation). '
        'Genuine defects found and repaired are listed in KNOWN_FINDINGS.txt (fixed: entries suppress nothing).',
    }
    with open(os.path.join(VERIF, 'MANIFEST.json'), 'w', encoding='utf8') as fhandle:
        json.dump(manifest, fhandle, indent=1)
    print(f'{len(checks)} checks, {len(not_applicable)} not claimed')


if __name__ == '__main__':
    main()
