#!/usr/bin/env python3
"""Print the prompt given to a mutation-seeding sub-agent: only the property text and a scratch worktree."""
import json
import sys

pid, tag = sys.argv[1], sys.argv[2]
hint = sys.argv[3] if len(sys.argv) > 3 else ''
props = {}
for line in open('/verif/properties.jsonl'):
    d = json.loads(line)
    props[d['id']] = d
p = props[pid]
wt = f'/tmp/wt_{tag}'
out = f'/tmp/seeds_out/{tag}'
print(f"""You are helping to test a verification effort by seeding ONE realistic defect into a scratch copy of a library.

The library is aiidateam/disk-objectstore (pure Python: a content-addressed on-disk object store with loose files, append-only pack files indexed by SQLite, packing, repacking, compression, validation, rsync backup). A scratch git worktree of it is at {wt}. Work ONLY inside {wt} and {out} (create it). Never modify /repo, never read or write anything under /verif, do not create other worktrees.

PROPERTY that your change must break:
  Title: {p['title']}
  Statement: {p['statement']}
  Quantified over: {p['quantifier']['text']}

YOUR TASK: craft one realistic change to the library source under {wt}/disk_objectstore/ (the kind of bug a developer could plausibly introduce: a refactoring slip, a well-meant optimisation, a reordering of two steps, an off-by-one at a boundary, a dropped or misplaced call, a wrong variable, a condition that is almost right) such that
  1. the package still imports and the EXISTING test-suite gives exactly the same results as at HEAD (every test that passes at HEAD still passes; at HEAD exactly these 12 tests fail for environment reasons and must remain the only failures: tests/test_backup.py::test_inaccessible_path, tests/test_cli.py::test_backup[True-None], tests/test_cli.py::test_backup_repeated[True], tests/test_cli.py::test_main_command_missing_command, tests/test_cli.py::test_main_command_no_params, tests/test_cli.py::test_validate[True], tests/test_cli.py::test_validate_no_progressbar[False], tests/test_cli.py::test_validate_no_progressbar[True], tests/test_container.py::test_clean_storage_with_duplicates, tests/test_container.py::test_clean_storage_with_duplicates_all_corrupt, tests/test_container.py::test_clean_storage_with_duplicates_original_deleted, tests/test_container.py::test_delete_with_duplicates);
  2. the property above is genuinely violated by the changed code;
  3. the violation needs something SPECIFIC to manifest - a multi-step sequence of operations, an unusual input (a particular size / boundary / content kind / configuration value / parameter combination), a crash or I/O fault at a particular point, a particular interleaving of two clients, or two cooperating code sites that each look fine alone - NOT something that ordinary use or the first call would expose at once. Subtle is good; a change that makes everything fail is useless. {hint}
Do not edit the tests. Do not add new files to the package. Keep the change small (typically 1-15 lines).

HOW TO RUN THINGS (important): /venv/bin/python has disk_objectstore installed in editable mode pointing at /repo, so you MUST put the worktree first: always run with PYTHONPATH={wt}, e.g.
  cd {wt} && PYTHONPATH={wt} /venv/bin/python -c "import disk_objectstore; print(disk_objectstore.__file__)"   # must print a path under {wt}
  cd {wt} && PYTHONPATH={wt} /venv/bin/python -m pytest -q -p no:cacheprovider -n 4 --timeout=900 2>&1 | tail -20   # full suite, ~3-4 minutes; use at most -n 4, the machine is shared
There is no network. Do not install anything.

DELIVERABLES in {out}/ :
  patch.diff  - output of `git -C {wt} diff` (must apply to a clean checkout with `git apply`)
  demo.py     - a standalone demonstration script, run as `PYTHONPATH=<tree> /venv/bin/python demo.py`; it must create its own temporary container (tempfile), exercise the specific situation, and exit 0 printing PASS when the property holds (i.e. on the unpatched tree) and exit 1 printing FAIL plus what went wrong on the patched tree. Deterministic, under 60 seconds.
  notes.md    - which property it breaks and how, exactly what is needed for the violation to manifest, and the commands you ran with their results (test-suite result at HEAD semantics: same failures only; demo on patched tree: FAIL; demo on clean tree: PASS - verify the clean-tree run with `git -C {wt} diff > {out}/patch.diff; git -C {wt} apply -R {out}/patch.diff`, running the demo, then `git -C {wt} apply {out}/patch.diff`; do NOT use `git stash`: the stash is shared between all worktrees of the repository and other people work in other worktrees at the same time).
Leave the worktree with your patch applied. Finish with a short summary (what you changed, what triggers it, and that the three confirmations succeeded).""")
