#!/bin/bash
# run every check of one tier sequentially; print one line per check (exit code, wall time)
tier=${1:-quick}
cd "$(dirname "$0")/.."
for i in $(seq -w 1 18); do
  p=C$i
  start=$(date +%s)
  out=$(/venv/bin/python check.py $p --tier $tier 2>&1)
  code=$?
  echo "$p exit=$code wall=$(( $(date +%s) - start ))s :: $(echo "$out" | head -1)"
  if [ $code -ne 0 ]; then echo "$out" | head -20; fi
done
