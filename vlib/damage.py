"""Single damages applied to a *copy* of a container, and the ground-truth judge for C12."""

from __future__ import annotations

import os
import sqlite3

from .rawread import RawState

FIELDS = ('offset', 'length', 'size', 'compressed')


def enumerate_damages(folder: str):
    """All single damages of a (small) container copy: every bit of every loose file and of every referenced pack byte,
    every truncation point, and 8 perturbations of 4 fields of every row. Yields descriptors for `apply_descriptor`."""
    raw = RawState(folder)
    for key in sorted(raw.loose_paths):
        size = os.path.getsize(raw.loose_paths[key])
        for pos in range(size):
            for bit in range(8):
                yield {'class': 'flip-loose', 'key': key, 'pos': pos, 'bit': bit}
        for pos in range(size):
            yield {'class': 'trunc-loose', 'key': key, 'pos': pos}
    for row in raw.rows:
        for pos in range(row.offset, row.offset + row.length):
            for bit in range(8):
                yield {'class': 'flip-pack', 'pack': str(row.pack_id), 'pos': pos, 'bit': bit, 'compressed': bool(row.compressed)}
    for name in raw.pack_names:
        last = max([r.offset + r.length for r in raw.rows if str(r.pack_id) == name] or [0])
        for pos in range(last):
            yield {'class': 'trunc-pack', 'pack': name, 'pos': pos}
    for row in raw.rows:
        for field in FIELDS:
            for value in perturbations(raw, row, field):
                yield {'class': f'index-{field}', 'id': row.id, 'field': field, 'value': value, 'compressed': bool(row.compressed)}


def perturbations(raw: RawState, row, field):
    cur = getattr(row, field)
    if field == 'compressed':
        return [0 if cur else 1]
    others = [getattr(r, field) for r in raw.rows if r.id != row.id]
    size = raw.pack_sizes.get(str(row.pack_id), 0)
    cands = [cur - 1, cur + 1, 0, size, size + 7, cur * 2 + 1] + others[:2]
    out = []
    for value in cands:
        if value != cur and value >= 0 and value not in out:
            out.append(value)
    return out[:8]


def pick_damage(folder: str, probe: int):
    """Decode an integer into one damage descriptor for this container (None if nothing to damage)."""
    raw = RawState(folder)
    kind = probe % 6
    rest = probe // 6
    loose = sorted(k for k in raw.loose_paths if os.path.getsize(raw.loose_paths[k]) > 0)
    rows = [r for r in raw.rows]
    if kind in (0, 2) and not loose:
        kind = 1 if kind == 0 else 3
    if kind in (1, 3) and not [r for r in rows if r.length > 0]:
        kind = 4
    if kind in (4, 5) and not rows:
        if not loose:
            return None
        kind = 0
    if kind in (0, 2):
        key = loose[rest % len(loose)]
        size = os.path.getsize(raw.loose_paths[key])
        pos = (rest // 7) % size
        if kind == 0:
            return {'class': 'flip-loose', 'key': key, 'pos': pos, 'bit': rest % 8}
        return {'class': 'trunc-loose', 'key': key, 'pos': pos}
    if kind in (1, 3):
        cands = [r for r in rows if r.length > 0]
        row = cands[rest % len(cands)]
        pos = row.offset + (rest // 11) % row.length
        if kind == 1:
            return {'class': 'flip-pack', 'pack': str(row.pack_id), 'pos': pos, 'bit': rest % 8, 'compressed': bool(row.compressed)}
        return {'class': 'trunc-pack', 'pack': str(row.pack_id), 'pos': pos}
    row = rows[rest % len(rows)]
    field = FIELDS[(rest // 5) % 4]
    values = perturbations(raw, row, field)
    value = values[(rest // 23) % len(values)]
    return {'class': f'index-{field}', 'id': row.id, 'field': field, 'value': value, 'compressed': bool(row.compressed)}


def apply_descriptor(folder: str, desc: dict) -> None:
    cls = desc['class']
    if cls in ('flip-loose', 'trunc-loose'):
        raw = RawState(folder)
        path = raw.loose_paths[desc['key']]
    elif cls in ('flip-pack', 'trunc-pack'):
        path = os.path.join(folder, 'packs', desc['pack'])
    if cls.startswith('flip'):
        with open(path, 'r+b') as fhandle:
            fhandle.seek(desc['pos'])
            byte = fhandle.read(1)
            fhandle.seek(desc['pos'])
            fhandle.write(bytes([byte[0] ^ (1 << desc['bit'])]))
    elif cls.startswith('trunc'):
        os.truncate(path, desc['pos'])
    else:
        conn = sqlite3.connect(os.path.join(folder, 'packs.idx'))
        conn.execute(f"UPDATE db_object SET {desc['field']} = ? WHERE id = ?", (desc['value'], desc['id']))
        conn.commit()
        conn.close()


def apply_damage(folder: str, probe: int):
    desc = pick_damage(folder, probe)
    if desc is None:
        return None
    apply_descriptor(folder, desc)
    return desc


def judge(folder: str, model: dict, container_cls) -> dict:
    """Ground truth by reading every object through the library, then the verdict of validate()."""
    cont = container_cls(folder)
    effective = False
    why = ''
    try:
        for key, data in model.items():
            try:
                got = cont.get_object_content(key)
            except Exception as exc:  # pylint: disable=broad-except
                effective, why = True, f'{key[:10]} unreadable ({type(exc).__name__})'
                break
            if got != data:
                effective, why = True, f'{key[:10]} read back as different bytes'
                break
            # the same object through a seeking read (a compressed packed object is then served from its loose copy)
            try:
                with cont.get_object_stream(key) as stream:
                    stream.seek(0, 2)
                    stream.seek(0)
                    got = stream.read()
            except Exception as exc:  # pylint: disable=broad-except
                effective, why = True, f'{key[:10]} unreadable after a seek ({type(exc).__name__})'
                break
            if got != data:
                effective, why = True, f'{key[:10]} read back as different bytes after a seek (served from its loose copy)'
                break
            try:
                meta = cont.get_object_meta(key)
            except Exception as exc:  # pylint: disable=broad-except
                effective, why = True, f'{key[:10]} metadata unreadable ({type(exc).__name__})'
                break
            if meta.size != len(data):
                effective, why = True, f'{key[:10]} recorded size {meta.size} != {len(data)}'
                break
        cont.close()
        cont = container_cls(folder)
        try:
            clean = cont.validate().is_valid()
        except Exception:  # pylint: disable=broad-except
            clean = False
    finally:
        cont.close()
    return {'effective': effective, 'why': why, 'validate_clean': clean}
