"""Independent reader of the on-disk state: sqlite3 + byte slices + zlib only (no library code).

This is the recovery recipe of docs/pages/design.md ("Long-term support of the data").
"""

from __future__ import annotations

import hashlib
import json
import os
import sqlite3
import zlib
from collections import namedtuple

Row = namedtuple('Row', 'id hashkey compressed size offset length pack_id')


class RawState:
    """Snapshot of the raw on-disk state of a container folder."""

    def __init__(self, folder: str, read_packs: bool = True):
        self.folder = folder
        with open(os.path.join(folder, 'config.json'), encoding='utf8') as fhandle:
            self.config = json.load(fhandle)
        self.hash_type = self.config['hash_type']
        self.prefix_len = self.config['loose_prefix_len']
        self.rows = read_rows(folder)
        self.loose_paths = list_loose(folder, self.prefix_len)  # key -> path
        self.pack_sizes = {}
        self.pack_names = []
        pdir = os.path.join(folder, 'packs')
        for name in sorted(os.listdir(pdir)):
            path = os.path.join(pdir, name)
            if os.path.isfile(path) and (name.isdigit() or name == '-1'):
                self.pack_names.append(name)
                self.pack_sizes[name] = os.path.getsize(path)
        self._packs = {}
        self.read_packs = read_packs

    def pack_bytes(self, name) -> bytes:
        name = str(name)
        if name not in self._packs:
            with open(os.path.join(self.folder, 'packs', name), 'rb') as fhandle:
                self._packs[name] = fhandle.read()
        return self._packs[name]

    def loose_bytes(self, key) -> bytes:
        with open(self.loose_paths[key], 'rb') as fhandle:
            return fhandle.read()

    def rows_by_key(self):
        out = {}
        for row in self.rows:
            out.setdefault(row.hashkey, []).append(row)
        return out

    def keys(self):
        return set(self.loose_paths) | {row.hashkey for row in self.rows}

    def row_content(self, row: Row):
        """Return (content or None, problem or None) for an index row, using slice + zlib only."""
        name = str(row.pack_id)
        if name not in self.pack_sizes:
            return None, f'row {row.hashkey[:10]} references missing pack {name}'
        if row.offset < 0 or row.length < 0 or row.offset + row.length > self.pack_sizes[name]:
            return None, (
                f'row {row.hashkey[:10]} range [{row.offset},{row.offset + row.length}) outside pack {name} '
                f'of size {self.pack_sizes[name]}'
            )
        stored = self.pack_bytes(name)[row.offset : row.offset + row.length]
        if row.compressed:
            dec = zlib.decompressobj()
            try:
                content = dec.decompress(stored)
            except zlib.error as exc:
                return None, f'row {row.hashkey[:10]} does not inflate: {exc}'
            if not dec.eof:
                return None, f'row {row.hashkey[:10]} compressed stream truncated'
            if dec.unused_data:
                return None, f'row {row.hashkey[:10]} has {len(dec.unused_data)} trailing bytes after the zlib stream'
        else:
            content = stored
        return content, None

    def recover(self, key):
        """Documented manual recovery of one object. Returns bytes or None if the key is not stored."""
        rows = [row for row in self.rows if row.hashkey == key]
        if rows:
            content, problem = self.row_content(rows[0])
            if problem:
                raise ValueError(problem)
            return content
        if key in self.loose_paths:
            return self.loose_bytes(key)
        return None


def read_rows(folder: str):
    path = os.path.join(folder, 'packs.idx')
    conn = sqlite3.connect(path, timeout=10)
    try:
        cur = conn.execute('SELECT id, hashkey, compressed, size, offset, length, pack_id FROM db_object ORDER BY id')
        return [Row(*r) for r in cur.fetchall()]
    finally:
        conn.close()


def list_loose(folder: str, prefix_len: int):
    out = {}
    ldir = os.path.join(folder, 'loose')
    hexd = set('0123456789abcdef')
    for first in os.listdir(ldir):
        fpath = os.path.join(ldir, first)
        if prefix_len:
            if len(first) != prefix_len or not set(first) <= hexd or not os.path.isdir(fpath):
                continue
            for second in os.listdir(fpath):
                if set(second) <= hexd:
                    out[first + second] = os.path.join(fpath, second)
        else:
            if set(first) <= hexd and os.path.isfile(fpath):
                out[first] = fpath
    return out


def check_consistency(state: RawState, check_loose: bool = True):
    """Return a list of (signature, message) problems with the C03 invariants on a raw state."""
    problems = []
    seen = {}
    per_pack = {}
    for row in state.rows:
        if row.hashkey in seen:
            problems.append(('dup-key', f'key {row.hashkey[:10]} indexed twice'))
        seen[row.hashkey] = row
        content, problem = state.row_content(row)
        if problem:
            problems.append(('bad-range', problem))
            continue
        got = hashlib.new(state.hash_type, content).hexdigest()
        if got != row.hashkey:
            problems.append(
                ('bad-digest', f'row {row.hashkey[:10]} pack {row.pack_id}@{row.offset}+{row.length} holds bytes of digest {got[:10]}')
            )
        if len(content) != row.size:
            problems.append(('bad-size', f'row {row.hashkey[:10]} size {row.size} but content has {len(content)} bytes'))
        if not row.compressed and row.size != row.length:
            problems.append(('size-ne-length', f'row {row.hashkey[:10]} uncompressed with size {row.size} != length {row.length}'))
        per_pack.setdefault(row.pack_id, []).append(row)
    for pack_id, rows in per_pack.items():
        rows.sort(key=lambda r: (r.offset, r.length))
        end = 0
        for row in rows:
            if row.length > 0 and row.offset < end:
                problems.append(('overlap', f'row {row.hashkey[:10]} at {row.offset} overlaps previous range ending at {end} in pack {pack_id}'))
            end = max(end, row.offset + row.length)
    if check_loose:
        for key in state.loose_paths:
            got = hashlib.new(state.hash_type, state.loose_bytes(key)).hexdigest()
            if got != key:
                problems.append(('bad-loose', f'loose file {key[:10]} holds bytes of digest {got[:10]}'))
    return problems
