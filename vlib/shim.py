"""I/O interposition layer: turns every file-system call and SQL statement the library issues under one directory
into an event handed to a *consumer* (tracer, kill-at-k, power-loss-at-k, fault-at-k, scheduler).

No change to /repo is needed: builtins.open / io.open build the real C buffered objects over a FileIO subclass whose raw
write/truncate/close are observable, os.* functions are wrapped in the `os` module namespace (pathlib and shutil resolve them
at call time), SQL is observed through SQLAlchemy engine events. Only calls made by *registered threads* on paths under the
*root* are events; everything else passes through untouched.
"""

from __future__ import annotations

import builtins
import errno
import fcntl
import io
import os
import threading

READ_KINDS = frozenset({'open-r', 'stat', 'listdir', 'read', 'os-open', 'close-r', 'sql-select', 'sql-begin'})
# kinds after which the durable state of the file system or of the index may differ
MUTATING_KINDS = frozenset(
    {'open-w', 'write', 'truncate', 'fsync', 'rename', 'replace', 'link', 'unlink', 'mkdir', 'rmdir', 'sql-exec', 'sql-commit'}
)


class Event:
    """One intercepted call, delivered to the consumer BEFORE it is executed."""

    __slots__ = ('kind', 'path', 'detail', 'index', 'fobj', 'data', 'actor', 'path2')

    def __init__(self, kind, path, detail=None, fobj=None, data=None, path2=None):
        self.kind = kind
        self.path = path
        self.detail = detail
        self.fobj = fobj
        self.data = data
        self.path2 = path2
        self.index = None
        self.actor = None

    def brief(self, root=''):
        path = self.path[len(root) :] if self.path and self.path.startswith(root) else self.path
        if self.path2:
            path2 = self.path2[len(root) :] if self.path2.startswith(root) else self.path2
            return f'{self.kind} {path} -> {path2}'
        extra = f' {self.detail}' if self.detail is not None else ''
        return f'{self.kind} {path}{extra}'


class Consumer:
    """Base consumer: counts events."""

    def before(self, event: Event):  # may raise (fault), exit (kill) or block (scheduler)
        pass

    def after(self, event: Event):
        pass


class Tracer(Consumer):
    def __init__(self, root=''):
        self.events = []
        self.root = root

    def before(self, event):
        self.events.append((event.kind, event.brief(self.root)))


class Shim:
    """Process-global interposition on one root directory."""

    _installed = None

    def __init__(self, root: str, consumer: Consumer, trace_reads: bool = False):
        self.root = os.path.realpath(root) + os.sep
        self.consumer = consumer
        self.trace_reads = trace_reads
        self.tls = threading.local()
        self.all_threads = False  # if True, every thread is an actor (single-threaded use)
        self.counter = 0
        self.lock = threading.Lock()
        self._orig = {}
        self._sql_listeners = []

    # ------------------------------------------------------------------ activation
    def activate(self, actor='main'):
        self.tls.actor = actor

    def deactivate(self):
        self.tls.actor = None

    def _actor(self):
        if getattr(self.tls, 'busy', False):
            return None
        return getattr(self.tls, 'actor', None)

    def tracked(self, path) -> str | None:
        if self._actor() is None:
            return None
        try:
            if isinstance(path, int):
                return None
            text = os.fspath(path)
            if isinstance(text, bytes):
                text = os.fsdecode(text)
        except TypeError:
            return None
        if not os.path.isabs(text):
            text = os.path.abspath(text)
        if text.startswith(self.root) or text + os.sep == self.root:
            return text
        # symlink-free fast path failed; containers resolve() their folder, so this is enough
        return None

    def fd_path(self, fd) -> str | None:
        if self._actor() is None or not isinstance(fd, int):
            return None
        try:
            target = self._orig['readlink'](f'/proc/self/fd/{fd}')
        except OSError:
            return None
        if target.endswith(' (deleted)'):
            target = target[: -len(' (deleted)')]
        if target.startswith(self.root) or target + os.sep == self.root:
            return target
        return None

    def emit(self, event: Event):
        """Deliver to the consumer (before the real call)."""
        event.actor = self._actor()
        with self.lock:
            event.index = self.counter
            self.counter += 1
        self.tls.busy = True
        try:
            self.consumer.before(event)
        finally:
            self.tls.busy = False
        return event

    def done(self, event: Event):
        self.tls.busy = True
        try:
            self.consumer.after(event)
        finally:
            self.tls.busy = False

    # ------------------------------------------------------------------ install / uninstall
    def install(self):
        if Shim._installed is not None:
            raise RuntimeError('a shim is already installed')
        Shim._installed = self
        orig = self._orig
        orig['open'] = builtins.open
        orig['io_open'] = io.open
        for name in ('rename', 'replace', 'link', 'remove', 'unlink', 'mkdir', 'rmdir', 'listdir', 'stat', 'open', 'fsync',
                     'fdatasync', 'truncate', 'ftruncate', 'readlink', 'scandir', 'write', 'pwrite'):
            orig[name if name != 'open' else 'os_open'] = getattr(os, name)
        orig['fcntl'] = fcntl.fcntl
        shim = self

        def hooked_open(file, mode='r', buffering=-1, encoding=None, errors=None, newline=None, closefd=True, opener=None):
            path = shim.tracked(file)
            if path is None or not closefd:
                return orig['open'](file, mode, buffering, encoding, errors, newline, closefd, opener)
            return shim._open(path, file, mode, buffering, encoding, errors, newline, opener)

        builtins.open = hooked_open
        io.open = hooked_open

        def two_paths(kind, name):
            real = orig[name]

            def wrapper(src, dst, *args, **kwargs):
                psrc, pdst = shim.tracked(src), shim.tracked(dst)
                if psrc is None and pdst is None:
                    return real(src, dst, *args, **kwargs)
                event = shim.emit(Event(kind, psrc or os.fspath(src), path2=pdst or os.fspath(dst)))
                result = real(src, dst, *args, **kwargs)
                shim.done(event)
                return result

            return wrapper

        def one_path(kind, name, read=False):
            real = orig[name]

            def wrapper(path, *args, **kwargs):
                tracked = shim.tracked(path)
                if tracked is None or (read and not shim.trace_reads):
                    return real(path, *args, **kwargs)
                event = shim.emit(Event(kind, tracked))
                result = real(path, *args, **kwargs)
                shim.done(event)
                return result

            return wrapper

        os.rename = two_paths('rename', 'rename')
        os.replace = two_paths('replace', 'replace')
        os.link = two_paths('link', 'link')
        os.remove = one_path('unlink', 'remove')
        os.unlink = one_path('unlink', 'unlink')
        os.mkdir = one_path('mkdir', 'mkdir')
        os.rmdir = one_path('rmdir', 'rmdir')
        os.listdir = one_path('listdir', 'listdir', read=True)
        os.scandir = one_path('listdir', 'scandir', read=True)
        os.stat = one_path('stat', 'stat', read=True)
        os.truncate = one_path('truncate', 'truncate')

        def hooked_os_open(path, flags, *args, **kwargs):
            tracked = shim.tracked(path)
            writing = bool(flags & (os.O_WRONLY | os.O_RDWR | os.O_CREAT | os.O_TRUNC | os.O_APPEND))
            if tracked is None or not (shim.trace_reads or writing):
                return orig['os_open'](path, flags, *args, **kwargs)
            event = shim.emit(Event('open-w' if writing else 'os-open', tracked, detail=flags))
            result = orig['os_open'](path, flags, *args, **kwargs)
            shim.done(event)
            return result

        os.open = hooked_os_open

        def fd_write(name):
            real = orig[name]

            def wrapper(fd, data, *args, **kwargs):
                tracked = shim.fd_path(fd) if shim._actor() is not None else None  # pylint: disable=protected-access
                if tracked is None:
                    return real(fd, data, *args, **kwargs)
                event = shim.emit(Event('write', tracked, detail=len(data), data=data, fobj=_FdOnly(fd)))
                result = real(fd, data, *args, **kwargs)
                shim.done(event)
                return result

            return wrapper

        os.write = fd_write('write')
        os.pwrite = fd_write('pwrite')

        def sync_wrapper(name):
            real = orig[name]

            def wrapper(fd):
                tracked = shim.fd_path(fd if isinstance(fd, int) else fd.fileno())
                if tracked is None:
                    return real(fd)
                isdir = _isdir(orig['stat'], tracked)
                event = shim.emit(Event('fsync', tracked, detail='dir' if isdir else 'file', data=fd))
                result = real(fd)
                shim.done(event)
                return result

            return wrapper

        os.fsync = sync_wrapper('fsync')
        os.fdatasync = sync_wrapper('fdatasync')

        def hooked_ftruncate(fd, length):
            tracked = shim.fd_path(fd)
            if tracked is None:
                return orig['ftruncate'](fd, length)
            event = shim.emit(Event('truncate', tracked, detail=length))
            result = orig['ftruncate'](fd, length)
            shim.done(event)
            return result

        os.ftruncate = hooked_ftruncate

        def hooked_fcntl(fd, cmd, arg=0):
            full = getattr(fcntl, 'F_FULLFSYNC', None)
            tracked = shim.fd_path(fd if isinstance(fd, int) else fd.fileno())
            if tracked is None:
                return orig['fcntl'](fd, cmd, arg)
            if full is not None and cmd == full:
                event = shim.emit(Event('fsync', tracked, detail='full', data=fd))
            else:
                event = shim.emit(Event('fcntl', tracked, detail=cmd))
            result = orig['fcntl'](fd, cmd, arg)
            shim.done(event)
            return result

        fcntl.fcntl = hooked_fcntl
        self._install_sql()
        return self

    def uninstall(self):
        if Shim._installed is not self:
            return
        orig = self._orig
        builtins.open = orig['open']
        io.open = orig['io_open']
        for name in ('rename', 'replace', 'link', 'remove', 'unlink', 'mkdir', 'rmdir', 'listdir', 'stat', 'fsync', 'fdatasync',
                     'truncate', 'ftruncate', 'scandir', 'write', 'pwrite'):
            setattr(os, name, orig[name])
        os.open = orig['os_open']
        fcntl.fcntl = orig['fcntl']
        self._uninstall_sql()
        Shim._installed = None

    # ------------------------------------------------------------------ files
    def _open(self, path, file, mode, buffering, encoding, errors, newline, opener=None):
        binary = 'b' in mode
        rawmode = mode.replace('b', '').replace('t', '')
        writing = any(c in rawmode for c in 'wax+')
        if writing or self.trace_reads:
            event = self.emit(Event('open-w' if writing else 'open-r', path, detail=mode))
        else:
            event = None
        # (an `opener` usually goes through os.open, which is interposed as well: mute it so that the open is one event)
        if opener is not None:
            self.tls.busy = True
            try:
                raw = HookedFileIO(file, rawmode, opener=opener)
            finally:
                self.tls.busy = False
        else:
            raw = HookedFileIO(file, rawmode)
        raw._shim = self  # pylint: disable=protected-access
        raw._vpath = path  # pylint: disable=protected-access
        raw._writing = writing  # pylint: disable=protected-access
        if event is not None:
            self.done(event)
        try:
            if buffering == 0:
                if not binary:
                    raise ValueError("can't have unbuffered text I/O")
                return raw
            size = buffering if buffering > 1 else io.DEFAULT_BUFFER_SIZE
            if '+' in rawmode:
                buffered = io.BufferedRandom(raw, size)
            elif 'r' in rawmode:
                buffered = io.BufferedReader(raw, size)
            else:
                buffered = io.BufferedWriter(raw, size)
            if binary:
                return buffered
            text = io.TextIOWrapper(buffered, encoding, errors, newline, buffering == 1)
            text.mode = mode
            return text
        except BaseException:
            raw.close()
            raise

    # ------------------------------------------------------------------ SQL
    def _install_sql(self):
        from sqlalchemy import event as sa_event  # pylint: disable=import-outside-toplevel
        from sqlalchemy.engine import Engine  # pylint: disable=import-outside-toplevel

        shim = self

        def db_path(conn):
            try:
                database = conn.engine.url.database
            except Exception:  # pylint: disable=broad-except
                return None
            if not database:
                return None
            return shim.tracked(database)

        def before_cursor_execute(conn, cursor, statement, parameters, context, executemany):
            path = db_path(conn)
            if path is None:
                return
            head = statement.lstrip().split(None, 1)[0].upper() if statement.strip() else ''
            if head == 'SELECT':
                kind = 'sql-select'
            elif head in ('BEGIN', 'PRAGMA'):
                kind = 'sql-begin'
            elif head == 'COMMIT':
                kind = 'sql-commit'
            else:
                kind = 'sql-exec'
            if kind in READ_KINDS and not shim.trace_reads:
                return
            event = shim.emit(Event(kind, path, detail=' '.join(statement.split())[:60]))
            conn.info['_verif_event'] = event

        def after_cursor_execute(conn, cursor, statement, parameters, context, executemany):
            event = conn.info.pop('_verif_event', None)
            if event is not None:
                shim.done(event)

        def commit(conn):
            path = db_path(conn)
            if path is None:
                return
            shim.emit(Event('sql-commit', path, detail='commit'))

        self._sql_listeners = [
            (Engine, 'before_cursor_execute', before_cursor_execute),
            (Engine, 'after_cursor_execute', after_cursor_execute),
            (Engine, 'commit', commit),
        ]
        for target, name, func in self._sql_listeners:
            sa_event.listen(target, name, func)

    def _uninstall_sql(self):
        from sqlalchemy import event as sa_event  # pylint: disable=import-outside-toplevel

        for target, name, func in self._sql_listeners:
            try:
                sa_event.remove(target, name, func)
            except Exception:  # pylint: disable=broad-except
                pass
        self._sql_listeners = []


class HookedFileIO(io.FileIO):
    """FileIO whose raw write / truncate / close (and optionally read) are events."""

    _shim = None
    _vpath = None
    _writing = False

    def write(self, data):
        shim = self._shim
        if shim is None or shim._actor() is None:  # pylint: disable=protected-access
            return super().write(data)
        event = shim.emit(Event('write', self._vpath, detail=len(data), fobj=self, data=data))
        result = super().write(data)
        shim.done(event)
        return result

    def truncate(self, size=None):
        shim = self._shim
        if shim is None or shim._actor() is None:  # pylint: disable=protected-access
            return super().truncate(size)
        event = shim.emit(Event('truncate', self._vpath, detail=size if size is not None else self.tell()))
        result = super().truncate(size)
        shim.done(event)
        return result

    def readinto(self, buffer):
        shim = self._shim
        if shim is None or not shim.trace_reads or shim._actor() is None:  # pylint: disable=protected-access
            return super().readinto(buffer)
        event = shim.emit(Event('read', self._vpath, detail=len(buffer)))
        result = super().readinto(buffer)
        shim.done(event)
        return result

    def close(self):
        shim = self._shim
        if self.closed or shim is None or shim._actor() is None:  # pylint: disable=protected-access
            return super().close()
        if not self._writing and not shim.trace_reads:
            return super().close()
        try:
            event = shim.emit(Event('close-w' if self._writing else 'close-r', self._vpath, fobj=self))
        except BaseException:
            super().close()  # an injected fault at close still releases the descriptor, like close(2)
            raise
        result = super().close()
        shim.done(event)
        return result


class _FdOnly:
    """Stand-in for a file object when only a descriptor is known (os.write)."""

    def __init__(self, fd):
        self._fd = fd

    def fileno(self):
        return self._fd


def _isdir(real_stat, path):
    import stat as stat_mod  # pylint: disable=import-outside-toplevel

    try:
        return stat_mod.S_ISDIR(real_stat(path).st_mode)
    except OSError:
        return False


def eio(what='injected I/O error'):
    return OSError(errno.EIO, what)
