"""Paths, scratch directories, deterministic content descriptors, configurations."""

from __future__ import annotations

import atexit
import functools
import hashlib
import os
import random
import shutil
import sys
import tempfile

REPO = os.environ.get('VERIF_REPO', '/repo')
VERIF = os.path.dirname(os.path.dirname(os.path.abspath(__file__)))


class Violation(Exception):
    """A property violation found by an oracle. `sig` is a short stable signature (oracle + API pattern)."""

    def __init__(self, prop: str, sig: str, msg: str):
        super().__init__(f'[{prop}] {sig}: {msg}')
        self.prop = prop
        self.sig = sig
        self.msg = msg


class HarnessError(Exception):
    """Something went wrong in the harness itself (never reported as a violation)."""


def setup_repo_path() -> None:
    """Make sure `disk_objectstore` is imported from /repo's working tree."""
    sys.dont_write_bytecode = True
    if REPO in sys.path:
        sys.path.remove(REPO)
    sys.path.insert(0, REPO)
    import disk_objectstore  # pylint: disable=import-outside-toplevel

    real = os.path.realpath(disk_objectstore.__file__)
    if not real.startswith(os.path.realpath(REPO) + os.sep):
        raise HarnessError(f'disk_objectstore imported from {real}, not from {REPO}')


# ---------------------------------------------------------------------------------------------
# scratch space

_SCRATCH_ROOT = None


def scratch_root() -> str:
    """A per-process scratch directory on tmpfs (removed at exit)."""
    global _SCRATCH_ROOT  # pylint: disable=global-statement
    if _SCRATCH_ROOT is None or not os.path.isdir(_SCRATCH_ROOT) or _SCRATCH_ROOT_PID != os.getpid():
        base = '/dev/shm' if os.access('/dev/shm', os.W_OK) else tempfile.gettempdir()
        _SCRATCH_ROOT = tempfile.mkdtemp(prefix=f'verif-{os.getpid()}-', dir=base)
        _set_pid()
        atexit.register(_cleanup, _SCRATCH_ROOT, os.getpid())
    return _SCRATCH_ROOT


_SCRATCH_ROOT_PID = None


def _set_pid():
    global _SCRATCH_ROOT_PID  # pylint: disable=global-statement
    _SCRATCH_ROOT_PID = os.getpid()


def _cleanup(path, pid):
    if os.getpid() == pid:
        shutil.rmtree(path, ignore_errors=True)


_COUNTER = [0]


def new_dir(prefix: str = 'case') -> str:
    _COUNTER[0] += 1
    path = os.path.join(scratch_root(), f'{prefix}{_COUNTER[0]}')
    os.makedirs(path)
    return path


def rm_dir(path: str) -> None:
    shutil.rmtree(path, ignore_errors=True)


# ---------------------------------------------------------------------------------------------
# contents: descriptor (cls, size, seed) -> bytes, deterministic

CONTENT_CLASSES = ('zeros', 'repeat', 'random', 'mixed', 'text', 'trap', 'antitrap')


@functools.lru_cache(maxsize=512)
def make_content(cls: str, size: int, seed: int) -> bytes:
    """Deterministic content for a descriptor."""
    rnd = random.Random(seed * 1000003 + size)
    if size == 0:
        return b''
    if cls == 'zeros':
        return b'\x00' * size
    if cls == 'repeat':
        period = rnd.randbytes(1 + seed % 13)
        return (period * (size // len(period) + 1))[:size]
    if cls == 'random':
        return rnd.randbytes(size)
    if cls == 'mixed':
        half = size // 2
        return rnd.randbytes(half) + bytes([seed % 251]) * (size - half)
    if cls == 'text':
        words = [b'alpha', b'beta', b'gamma', b'delta', b'%d' % seed, b'\n', b' ']
        out = bytearray()
        while len(out) < size:
            out += rnd.choice(words)
        return bytes(out[:size])
    if cls in ('trap', 'antitrap'):
        # compressible exactly where the AUTO heuristic samples (1 KiB windows every size//128 bytes), random
        # elsewhere ('trap'), or the converse ('antitrap')
        data = bytearray(rnd.randbytes(size)) if cls == 'trap' else bytearray(size)
        interval = max(size // 128, 1024)
        pos = 0
        while pos < size:
            end = min(pos + 1024, size)
            data[pos:end] = bytes(end - pos) if cls == 'trap' else rnd.randbytes(end - pos)
            pos += interval
        return bytes(data)
    raise HarnessError(f'unknown content class {cls}')


def content_of(desc) -> bytes:
    return make_content(desc[0], int(desc[1]), int(desc[2]))


def digest(hash_type: str, data: bytes) -> str:
    return hashlib.new(hash_type, data).hexdigest()


def absent_key(hash_type: str, i: int) -> str:
    """A key that (with overwhelming probability) is not the digest of any generated content."""
    return digest(hash_type, b'\xffverif-absent-%d' % i)


# ---------------------------------------------------------------------------------------------
# configurations

PACK_TARGETS = (1, 64, 1000, 100000, 4 * 1024 * 1024 * 1024)


def config_kwargs(cfg: dict) -> dict:
    return {
        'hash_type': cfg['hash_type'],
        'loose_prefix_len': cfg['loose_prefix_len'],
        'compression_algorithm': f"zlib+{cfg['level']}",
        'pack_size_target': cfg['pack_size_target'],
    }


def short(data: bytes, n: int = 12) -> str:
    if len(data) <= n:
        return data.hex()
    return f'{data[:n].hex()}..(len={len(data)})'


LOWERED_CHOICES = (None, None, None, [2, 9500, 65536], [1, 1, 13], [3, 0, 1000], [950, 1, 1], [950, 9500, 7])


def container_class(lowered=None):
    """The library's Container, or a subclass with lowered internal tuning constants [IN batch size, full-scan threshold, pack
    copy chunk]: same code, other internal strategy (what > 950 / > 9500 keys or large objects select in production)."""
    from disk_objectstore import Container  # pylint: disable=import-outside-toplevel

    if not lowered:
        return Container

    class Lowered(Container):  # pylint: disable=too-few-public-methods
        _IN_SQL_MAX_LENGTH = lowered[0]
        _MAX_CHUNK_ITERATE_LENGTH = lowered[1]
        _CHUNKSIZE = lowered[2] if len(lowered) > 2 else Container._CHUNKSIZE

    return Lowered
