"""Runner: shards a check over processes, merges evidence, writes replays, honours known findings.

Exit codes: 0 held on everything explored; 1 + 'VIOLATION property=<id> replay=<path>'; 2 harness error.
"""

from __future__ import annotations

import argparse
import hashlib
import importlib
import json
import os
import subprocess
import sys
import tempfile
import time
import traceback

from .common import VERIF, HarnessError, Violation

NSHARDS = int(os.environ.get('VERIF_SHARDS', '16'))
OUT_DIR = os.path.join(VERIF, 'out')
KNOWN_FILE = os.path.join(VERIF, 'KNOWN_FINDINGS.txt')


# ---------------------------------------------------------------------------------------------
# known findings


def load_known():
    """Return list of dicts for `open:` entries: {'property', 'sig', 'text'}; `fixed:` entries suppress nothing."""
    entries = []
    if not os.path.exists(KNOWN_FILE):
        return entries
    with open(KNOWN_FILE, encoding='utf8') as fhandle:
        for line in fhandle:
            line = line.strip()
            if not line.startswith('open:'):
                continue
            fields = line[len('open:') :].split()
            prop = sig = None
            rest = []
            for field in fields:
                if field.startswith('property=') and prop is None:
                    prop = field.split('=', 1)[1]
                elif field.startswith('sig=') and sig is None:
                    sig = field.split('=', 1)[1]
                else:
                    rest.append(field)
            if prop and sig:
                entries.append({'property': prop, 'sig': sig, 'text': ' '.join(rest)})
    return entries


def known_match(known, prop, sig):
    for entry in known:
        if entry['property'] == prop and sig.startswith(entry['sig']):
            return entry
    return None


# ---------------------------------------------------------------------------------------------
# per-shard statistics


class Stats:
    """Counters of one shard."""

    def __init__(self, prop, max_samples=4):
        self.prop = prop
        self.evaluations = 0
        self.fps = set()
        self.samples = []
        self.hist = {}
        self.violations = []
        self.excluded_known = {}
        self.skipped_budget = 0
        self.max_samples = max_samples
        self.exhaustive = None
        self.extra = {}
        self.fallback_sample = None

    def label(self, name, amount=1):
        self.hist[name] = self.hist.get(name, 0) + amount

    def record(self, nontrivial: bool, fingerprint, sample=None, evaluations=1):
        self.evaluations += evaluations
        if nontrivial:
            fp = hashlib.sha1(json.dumps(fingerprint, sort_keys=True, default=str).encode()).hexdigest()[:16]
            if fp not in self.fps:
                self.fps.add(fp)
                if sample is not None and len(self.samples) < self.max_samples:
                    self.samples.append(sample)
        elif sample is not None and self.fallback_sample is None:
            self.fallback_sample = sample

    def to_json(self):
        return {
            'evaluations': self.evaluations,
            'fps': sorted(self.fps),
            'samples': self.samples or ([self.fallback_sample] if self.fallback_sample is not None else []),
            'samples_nontrivial': bool(self.samples),
            'hist': self.hist,
            'violations': self.violations,
            'excluded_known': self.excluded_known,
            'skipped_budget': self.skipped_budget,
            'exhaustive': self.exhaustive,
            'extra': self.extra,
        }


class Ctx:
    """What a shard needs to know."""

    def __init__(self, prop, tier, seed, shard, nshards):
        self.prop = prop
        self.tier = tier
        self.seed = seed
        self.shard = shard
        self.nshards = nshards
        self.known = load_known()
        self.stats = Stats(prop)
        self.t0 = time.time()
        self.deadline = None

    def shard_seed(self, salt=0):
        return int(hashlib.sha256(f'{self.seed}:{self.shard}:{salt}'.encode()).hexdigest()[:12], 16)

    def set_budget(self, seconds):
        self.deadline = time.time() + seconds

    def out_of_time(self):
        return self.deadline is not None and time.time() > self.deadline

    def mine(self, index):
        """Static partition of an enumerated space over shards."""
        return index % self.nshards == self.shard


def explore(ctx: Ctx, strategy, run_one, max_examples: int, salt=0, shrink=None):
    """Drive `run_one(case)` with Hypothesis-generated cases (generation only; failures are minimised by `shrink`).

    `run_one(case)` returns (nontrivial, fingerprint, sample, labels) or raises Violation.
    """
    import hypothesis  # pylint: disable=import-outside-toplevel
    from hypothesis import HealthCheck, Phase, given, settings  # pylint: disable=import-outside-toplevel

    stats = ctx.stats
    holder = {}

    @hypothesis.seed(ctx.shard_seed(salt))
    @settings(
        max_examples=max_examples,
        database=None,
        deadline=None,
        derandomize=False,
        report_multiple_bugs=False,
        phases=[Phase.generate],
        suppress_health_check=list(HealthCheck),
        print_blob=False,
    )
    @given(strategy)
    def test(case):
        if ctx.out_of_time():
            stats.skipped_budget += 1
            return
        holder['case'] = case
        try:
            try:
                nontrivial, fingerprint, sample, labels = run_one(case)
            except (Violation, HarnessError):
                raise
            except Exception as exc:  # pylint: disable=broad-except
                # an exception escaping from LIBRARY code on a valid call is a violation of the property under test; an
                # exception raised by harness code stays a harness error
                from .interp import library_frame, raised_in_library  # pylint: disable=import-outside-toplevel

                if raised_in_library(exc):
                    raise Violation(
                        ctx.prop, f'library-raised:{type(exc).__name__}:{library_frame(exc)}', f'a valid call raised {exc!r} inside the library'
                    ) from exc
                raise
        except Violation as exc:
            entry = known_match(ctx.known, exc.prop, exc.sig)
            if entry is not None:
                stats.excluded_known[entry['sig']] = stats.excluded_known.get(entry['sig'], 0) + 1
                stats.evaluations += 1
                return
            holder.setdefault('observed', (exc, case))
            raise
        for name in labels:
            stats.label(name)
        stats.record(nontrivial, fingerprint, sample)

    try:
        test()
    except Violation as exc:
        case = holder.get('case')
        if shrink is not None and case is not None:
            try:
                case, exc = shrink(case, exc)
            except Exception:  # pylint: disable=broad-except
                traceback.print_exc()
        stats.violations.append(
            {'property': exc.prop, 'sig': exc.sig, 'msg': exc.msg, 'case': case, 'log': getattr(exc, 'log', None)}
        )
    except Exception as err:
        if type(err).__name__ in ('FlakyFailure', 'Flaky') and 'observed' in holder:
            # the violation was observed on real files but the immediate re-run of the same case did not show it again
            # (something outside the harness's control differed, e.g. wall-clock seconds seen by rsync): the observation
            # stands and is reported, marked as not reproduced
            exc, case = holder['observed']
            stats.violations.append(
                {'property': exc.prop, 'sig': exc.sig, 'msg': exc.msg + ' [observed once; not reproduced by the immediate re-run]',
                 'case': case, 'log': getattr(exc, 'log', None), 'not_reproduced': True}
            )
            return
        # harness error: keep the case that triggered it for debugging
        os.makedirs(os.path.join(OUT_DIR, 'harness'), exist_ok=True)
        with open(os.path.join(OUT_DIR, 'harness', f'{ctx.prop}-shard{ctx.shard}.json'), 'w', encoding='utf8') as fhandle:
            json.dump({'case': holder.get('case')}, fhandle, default=str)
        raise


def ddmin_ops(case, exc, run_one, budget_s=45.0, key='ops'):
    """Greedy delta-debugging over the op list of a case: keep removing chunks while the same signature is raised."""
    sig = exc.sig
    t_end = time.time() + budget_s
    ops = list(case[key])
    best_exc = exc

    def fails(candidate_ops):
        trial = dict(case)
        trial[key] = candidate_ops
        try:
            run_one(trial)
        except Violation as err:
            if err.sig == sig:
                return err
        except Exception:  # pylint: disable=broad-except
            return None
        return None

    chunk = max(len(ops) // 2, 1)
    while time.time() < t_end:
        i = 0
        progressed = False
        while i < len(ops) and time.time() < t_end:
            candidate = ops[:i] + ops[i + chunk :]
            err = fails(candidate)
            if err is not None:
                ops = candidate
                best_exc = err
                progressed = True
            else:
                i += chunk
        if chunk == 1:
            if not progressed:
                break
        else:
            chunk = max(chunk // 2, 1)
    out = dict(case)
    out[key] = ops
    return out, best_exc


# ---------------------------------------------------------------------------------------------
# parent process


def load_prop(prop):
    return importlib.import_module(f'props.{prop.lower()}')


def run_shard_main(prop, tier, seed, shard, nshards, out_path):
    from .common import setup_repo_path  # pylint: disable=import-outside-toplevel

    setup_repo_path()
    module = load_prop(prop)
    ctx = Ctx(prop, tier, seed, shard, nshards)
    status = 'ok'
    err = None
    try:
        module.run_shard(ctx)
    except Exception:  # pylint: disable=broad-except
        status = 'harness-error'
        err = traceback.format_exc()
    result = ctx.stats.to_json()
    result['status'] = status
    result['error'] = err
    result['wall'] = time.time() - ctx.t0
    with open(out_path, 'w', encoding='utf8') as fhandle:
        json.dump(result, fhandle, default=str)


def main(argv=None):
    parser = argparse.ArgumentParser()
    parser.add_argument('prop')
    parser.add_argument('--tier', default=os.environ.get('VERIF_TIER', 'quick'), choices=['quick', 'thorough'])
    parser.add_argument('--replay')
    parser.add_argument('--shard')
    parser.add_argument('--out')
    parser.add_argument('--shards', type=int, default=NSHARDS)
    args = parser.parse_args(argv)
    prop = args.prop.upper()
    try:
        seed = int(os.environ.get('VERIF_SEED', '1'))
    except ValueError:
        seed = 1

    if os.environ.get('PYTHONHASHSEED') != '0':
        env = dict(os.environ, PYTHONHASHSEED='0')
        os.execve(sys.executable, [sys.executable] + sys.argv, env)

    if args.shard:
        shard, nshards = (int(x) for x in args.shard.split('/'))
        run_shard_main(prop, args.tier, seed, shard, nshards, args.out)
        return 0

    from .common import setup_repo_path  # pylint: disable=import-outside-toplevel

    try:
        setup_repo_path()
        module = load_prop(prop)
    except Exception:  # pylint: disable=broad-except
        traceback.print_exc()
        return 2

    if args.replay:
        return replay_main(module, prop, args.replay)

    t0 = time.time()
    # replay tier: saved (shrunk) cases of earlier findings are re-executed first, without Hypothesis (seconds)
    replay_violations = []
    replayed = 0
    replay_dir = os.path.join(VERIF, 'replays', prop)
    if os.path.isdir(replay_dir):
        for name in sorted(os.listdir(replay_dir)):
            if not name.endswith('.json'):
                continue
            with open(os.path.join(replay_dir, name), encoding='utf8') as fhandle:
                data = json.load(fhandle)
            try:
                module.replay(data.get('case', data))
                replayed += 1
            except Violation as exc:
                replayed += 1
                replay_violations.append({'property': exc.prop, 'sig': exc.sig, 'msg': f'[saved case replays/{prop}/{name}] ' + exc.msg,
                                          'case': data.get('case', data), 'log': getattr(exc, 'log', None)})
            except Exception as exc:  # pylint: disable=broad-except
                from .interp import library_frame, raised_in_library  # pylint: disable=import-outside-toplevel

                if raised_in_library(exc):
                    replayed += 1
                    replay_violations.append({'property': prop, 'sig': f'library-raised:{type(exc).__name__}:{library_frame(exc)}',
                                              'msg': f'[saved case replays/{prop}/{name}] a valid call raised {exc!r} inside the library',
                                              'case': data.get('case', data), 'log': None})
                    continue
                traceback.print_exc()
                print(f'HARNESS-ERROR while replaying {name}', file=sys.stderr)
                return 2
    nshards = min(args.shards, getattr(module, 'MAX_SHARDS', args.shards))
    tmpdir = tempfile.mkdtemp(prefix='verif-run-')
    procs = []
    for shard in range(nshards):
        out_path = os.path.join(tmpdir, f'shard{shard}.json')
        cmd = [sys.executable]
        if os.environ.get('VERIF_COVERAGE'):
            # measurement aid (tools/coverage_map.sh): line+branch coverage of the library under the generated cases
            from .common import REPO  # pylint: disable=import-outside-toplevel

            cmd += ['-m', 'coverage', 'run', '-p', '--branch', '--data-file', os.path.join(os.environ['VERIF_COVERAGE'], f'.coverage.{prop}'),
                    f'--include={os.path.realpath(REPO)}/disk_objectstore/*']
        cmd += [
            os.path.join(VERIF, 'check.py'),
            prop,
            '--tier',
            args.tier,
            '--shard',
            f'{shard}/{nshards}',
            '--out',
            out_path,
        ]
        log = open(os.path.join(tmpdir, f'shard{shard}.log'), 'w', encoding='utf8')  # pylint: disable=consider-using-with
        procs.append((shard, subprocess.Popen(cmd, stdout=log, stderr=subprocess.STDOUT, cwd=VERIF), out_path, log))  # pylint: disable=consider-using-with
    results = []
    harness_errors = []
    # a shard that does not come back (the library looping for ever under some generated case) makes the run inconclusive
    # (exit 2), it is never reported as a violation: wall-clock time is not an oracle
    deadline = t0 + (1500 if args.tier == 'quick' else 3 * 3600)
    for shard, proc, out_path, log in procs:
        try:
            proc.wait(timeout=max(1.0, deadline - time.time()))
        except subprocess.TimeoutExpired:
            proc.kill()
            proc.wait()
            print(f'shard {shard} did not terminate before the deadline of the {args.tier} tier; killed', file=sys.stderr)
        log.close()
        if os.path.exists(out_path):
            with open(out_path, encoding='utf8') as fhandle:
                res = json.load(fhandle)
            results.append(res)
            if res['status'] != 'ok':
                harness_errors.append(f'shard {shard}: {res["error"]}')
        else:
            with open(log.name, encoding='utf8') as fhandle:
                tail = fhandle.read()[-3000:]
            harness_errors.append(f'shard {shard}: no result (exit {proc.returncode})\n{tail}')
    import shutil  # pylint: disable=import-outside-toplevel

    shutil.rmtree(tmpdir, ignore_errors=True)

    # merge
    fps = set()
    samples = []
    fallback_samples = []
    hist = {}
    violations = list(replay_violations)
    excluded = {}
    evaluations = 0
    skipped = 0
    extra = {}
    exhaustive_flags = []
    for res in results:
        evaluations += res['evaluations']
        fps.update(res['fps'])
        for sample in res['samples']:
            if res.get('samples_nontrivial', True):
                if len(samples) < 5:
                    samples.append(sample)
            elif len(fallback_samples) < 2:
                fallback_samples.append(sample)
        for name, value in res['hist'].items():
            hist[name] = hist.get(name, 0) + value
        violations += res['violations']
        for name, value in res['excluded_known'].items():
            excluded[name] = excluded.get(name, 0) + value
        skipped += res['skipped_budget']
        if res.get('exhaustive') is not None:
            exhaustive_flags.append(bool(res['exhaustive']))
        for name, value in (res.get('extra') or {}).items():
            if isinstance(value, bool):
                extra[name] = extra.get(name, True) and value
            elif isinstance(value, (int, float)) and isinstance(extra.get(name, 0), (int, float)):
                extra[name] = extra.get(name, 0) + value
            elif isinstance(value, dict):
                extra.setdefault(name, {}).update(value)
            else:
                extra.setdefault(name, value)

    samples = samples or fallback_samples
    known = load_known()
    wall = time.time() - t0
    coverage = {
        'evaluations': evaluations,
        'distinct_nontrivial': len(fps),
        'rule': module.RULE,
        'samples': samples,
        'class_histogram': dict(sorted(hist.items())),
        'shards': nshards,
        'saved_cases_replayed': replayed,
        'skipped_out_of_budget': skipped,
        'excluded_known': excluded,
    }
    coverage.update(extra)
    if exhaustive_flags:
        coverage['exhaustive'] = all(exhaustive_flags) and not skipped
    evidence = {
        'property_id': prop,
        'tier': args.tier,
        'seed': seed,
        'level': module.LEVEL,
        'coverage': coverage,
        'assumptions': list(module.ASSUMPTIONS),
        'wall_s': round(wall, 2),
        'violations': len(violations),
    }
    os.makedirs(os.path.join(VERIF, 'evidence'), exist_ok=True)
    with open(os.path.join(VERIF, 'evidence', f'{prop}.json'), 'w', encoding='utf8') as fhandle:
        json.dump(evidence, fhandle, indent=1, default=str)

    print(
        f'{prop} tier={args.tier} seed={seed}: {evaluations} cases, {len(fps)} distinct non-trivial, '
        f'{len(violations)} violations, {wall:.1f}s'
    )
    for entry in known:
        if entry['property'] == prop:
            print(f"KNOWN-FINDING: property={prop} {entry['text']} (excluded {excluded.get(entry['sig'], 0)} cases this run)")
    if harness_errors:
        for text in harness_errors:
            print('HARNESS-ERROR', text, file=sys.stderr)
    if violations:
        os.makedirs(os.path.join(OUT_DIR, 'replays'), exist_ok=True)
        seen = set()
        for i, viol in enumerate(violations):
            path = os.path.join(OUT_DIR, 'replays', f'{prop}-seed{seed}-{args.tier}-{i}.json')
            with open(path, 'w', encoding='utf8') as fhandle:
                json.dump(viol, fhandle, indent=1, default=str)
            if viol['sig'] not in seen:
                seen.add(viol['sig'])
                print(f"  {viol['sig']}: {viol['msg'][:300]}")
            print(f"VIOLATION property={viol.get('property') or prop} replay={path}")
        return 1
    if harness_errors:
        return 2
    if evaluations == 0:
        print('HARNESS-ERROR no case was evaluated', file=sys.stderr)
        return 2
    return 0


def replay_main(module, prop, path):
    with open(path, encoding='utf8') as fhandle:
        data = json.load(fhandle)
    case = data.get('case', data)
    try:
        module.replay(case)
    except Violation as exc:
        print(f'  {exc.sig}: {exc.msg[:500]}')
        print(f'VIOLATION property={exc.prop} replay={path}')
        return 1
    except HarnessError:
        traceback.print_exc()
        return 2
    except Exception as exc:  # pylint: disable=broad-except
        from .interp import library_frame, raised_in_library  # pylint: disable=import-outside-toplevel

        if raised_in_library(exc):
            print(f'  library-raised:{type(exc).__name__}:{library_frame(exc)}: a valid call raised {exc!r} inside the library')
            print(f'VIOLATION property={prop} replay={path}')
            return 1
        traceback.print_exc()
        return 2
    print(f'{prop}: replay of {path} holds')
    return 0
