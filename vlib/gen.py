"""Hypothesis strategies shared by the checks. Every random choice of a case comes from here."""

from __future__ import annotations

from hypothesis import strategies as st

from .common import CONTENT_CLASSES, PACK_TARGETS

BOUNDARY_SIZES = (
    0, 1, 2, 1023, 1024, 1025, 8191, 8192, 8193,
    65535, 65536, 65537, 131071, 131072, 131073,
    262143, 262144, 262145, 524287, 524288, 524289, 1048577,
)  # fmt: skip


def sizes(max_size: int = 1048577, boundary_weight: int = 2):
    small = st.integers(0, 300)
    medium = st.integers(0, min(6000, max_size))
    options = [small] * 6 + [medium] * 2 + [st.sampled_from([0, 0, 1, 2])]
    bounds = [b for b in BOUNDARY_SIZES if b <= max_size]
    options += [st.sampled_from(bounds)] * boundary_weight
    if max_size > 6000:
        options.append(st.integers(0, max_size))
    return st.one_of(*options)


def content_desc(max_size: int = 1048577, boundary_weight: int = 2, classes=CONTENT_CLASSES):
    return st.tuples(st.sampled_from(classes), sizes(max_size, boundary_weight), st.integers(0, 40)).map(list)


def config(targets=PACK_TARGETS):
    return st.fixed_dictionaries(
        {
            'hash_type': st.sampled_from(['sha256', 'sha1']),
            'loose_prefix_len': st.sampled_from([2, 0, 1, 3]),
            'level': st.integers(1, 9),
            'pack_size_target': st.sampled_from(list(targets)),
        }
    )


def op(kinds_weighted):
    return st.fixed_dictionaries(
        {
            'k': st.sampled_from(kinds_weighted),
            'a': st.integers(0, 255),
            'b': st.integers(0, 99999),
            'f': st.integers(0, 31),
            'n': st.lists(st.integers(0, 255), max_size=6),
        }
    )


def weighted(weights: dict):
    out = []
    for kind, weight in weights.items():
        out += [kind] * weight
    return out


def history_case(weights: dict, min_ops=1, max_ops=40, max_size=140000, boundary_weight=1, pool_max=8, targets=PACK_TARGETS,
                 extra=None):
    fields = {
        'cfg': config(targets),
        'aux_cfg': config(targets),
        'pool': st.lists(content_desc(max_size, boundary_weight), min_size=1, max_size=pool_max),
        # [IN batch size, full-scan threshold, pack copy chunk size]: internal tuning constants, lowered in a fraction of the cases
        'lowered': st.sampled_from([None, None, None, [2, 9500, 65536], [1, 1, 13], [3, 0, 1000], [950, 1, 1], [950, 9500, 7]]),
        'ops': st.integers(min_ops, max_ops).flatmap(lambda n: st.lists(op(weighted(weights)), min_size=n, max_size=n)),
    }
    if extra:
        fields.update(extra)
    return st.fixed_dictionaries(fields)
