"""Operation interpreter: applies generated operations to the real container and to a dict model.

A *case* is plain JSON data: {'cfg': {...}, 'aux_cfg': {...}, 'pool': [[cls,size,seed],...], 'ops': [op,...]}
An *op* is {'k': kind, 'a': int, 'b': int, 'f': int, 'n': [int,...]}; the generic integer slots are resolved against the
current state with modular indexing, so any list of ops is a valid history (good for shrinking / ddmin / replay).
"""

from __future__ import annotations

import io
import os
import uuid

from .common import HarnessError, Violation, absent_key, config_kwargs, content_of, digest, short
from .rawread import RawState

MODES_PACK = ('NO', 'YES', 'KEEP', 'AUTO', True, False)
MODES_REPACK = ('KEEP', 'NO', 'YES', 'AUTO')


class ShortReadStream:
    """A stream whose read(n) may return fewer bytes than requested (legal for read())."""

    mode = 'rb'

    def __init__(self, data: bytes, step: int):
        self._bio = io.BytesIO(data)
        self._step = max(1, step)

    def read(self, size=-1):
        if size is None or size < 0:
            return self._bio.read()
        return self._bio.read(min(size, self._step))

    def seek(self, *args):
        return self._bio.seek(*args)

    def tell(self):
        return self._bio.tell()

    def seekable(self):  # pylint: disable=no-self-use
        return True


class CallerStreamError(OSError):
    """Raised by a FailingStream: a failure on the caller's side of a write call."""


class FailingStream(ShortReadStream):
    """A stream that delivers `fail_at` bytes and then raises (the caller's file, socket, ... broke)."""

    def __init__(self, data: bytes, fail_at: int, step: int):
        super().__init__(data, step)
        self._fail_at = fail_at

    def read(self, size=-1):
        pos = self._bio.tell()
        if pos >= self._fail_at:
            raise CallerStreamError(5, 'input stream failed (caller side)')
        room = self._fail_at - pos
        if size is None or size < 0:
            size = room
        return self._bio.read(min(size, self._step, room))


class RecordingCallback:
    """Progress callback that records the protocol."""

    def __init__(self):
        self.events = []

    def __call__(self, action, value):
        self.events.append((action, value))

    def well_formed(self):
        """init / update* / close nesting; returns problem string or None."""
        state = 'closed'
        for action, value in self.events:
            if action == 'init':
                if not isinstance(value, dict) or 'total' not in value or 'description' not in value:
                    return f'init with bad value {value!r}'
                state = 'open'
            elif action == 'update':
                if state != 'open':
                    return 'update outside init/close'
            elif action == 'close':
                if state != 'open':
                    return 'close without init'
                state = 'closed'
            else:
                return f'unknown action {action!r}'
        if state != 'closed':
            return 'callback left open (init without close)'
        return None


def _mode(name):
    from disk_objectstore.utils import CompressMode  # pylint: disable=import-outside-toplevel

    if isinstance(name, bool):
        return name
    return getattr(CompressMode, name)


class World:  # pylint: disable=too-many-instance-attributes
    """The real container(s) next to the model."""

    def __init__(self, root: str, case: dict, checkers=(), prop: str = 'C02', nhandles: int = 1, attach=None):
        """`attach=(model, aux_model)` opens the existing containers under `root` instead of creating them."""
        from disk_objectstore import Container  # pylint: disable=import-outside-toplevel

        lowered = case.get('lowered')
        if lowered:
            # same code, other internal look-up strategy: the thresholds that select "IN batches" vs "ordered full scan" are
            # lowered so that histories with a handful of objects cross them (what > 950 / > 9500 keys do in production)
            class Lowered(Container):  # pylint: disable=too-few-public-methods
                _IN_SQL_MAX_LENGTH = lowered[0]
                _MAX_CHUNK_ITERATE_LENGTH = lowered[1]
                _CHUNKSIZE = lowered[2] if len(lowered) > 2 else Container._CHUNKSIZE

            Container = Lowered
        self.Container = Container  # pylint: disable=invalid-name
        self.root = root
        self.case = case
        self.cfg = case['cfg']
        self.aux_cfg = case.get('aux_cfg') or dict(case['cfg'])
        self.pool = case['pool']
        self.prop = prop
        self.path = os.path.join(root, 'c')
        self.aux_path = os.path.join(root, 'aux')
        self.tmp = os.path.join(root, 'tmp')
        os.makedirs(self.tmp, exist_ok=True)
        self.hash_type = self.cfg['hash_type']
        self.handles = []
        first = Container(self.path)
        if attach is None:
            first.init_container(clear=False, **config_kwargs(self.cfg))
        self.handles.append(first)
        for _ in range(nhandles - 1):
            self.handles.append(Container(self.path))
        self.cur = 0
        self.model = {}
        self.deleted = []  # recently deleted keys (checked to be absent)
        self.aux = None
        self.aux_model = {}
        if attach is not None:
            self.model = dict(attach[0])
            self.aux_model = dict(attach[1])
            if os.path.isdir(self.aux_path):
                self.aux = Container(self.aux_path)
        self.checkers = list(checkers)
        self.log = []
        self.stats = {}
        self.step = 0
        self.flags = set()  # history-level class labels (for non-triviality rules)

    # ------------------------------------------------------------------ helpers
    @property
    def c(self):
        return self.handles[self.cur]

    def viol(self, sig, msg, prop=None):
        return Violation(prop or self.prop, sig, f'step {self.step}: {msg}')

    def content(self, i):
        return content_of(self.pool[i % len(self.pool)])

    def present(self):
        return sorted(self.model)

    def raw(self):
        return RawState(self.path)

    def get_aux(self):
        if self.aux is None:
            self.aux = self.Container(self.aux_path)
            self.aux.init_container(clear=False, **config_kwargs(self.aux_cfg))
        return self.aux

    def select_keys(self, sels, pool_keys, hash_type, salt=0):
        """Resolve integer selectors to keys: i%4==0 -> an absent key, else a present key."""
        out = []
        for i in sels:
            if i % 4 == 0 or not pool_keys:
                out.append(absent_key(hash_type, (i // 4) % 5 + salt))
            else:
                out.append(pool_keys[(i // 4) % len(pool_keys)])
        return out

    def close(self):
        for handle in self.handles:
            try:
                handle.close()
            except Exception:  # pylint: disable=broad-except
                pass
        if self.aux is not None:
            try:
                self.aux.close()
            except Exception:  # pylint: disable=broad-except
                pass

    # ------------------------------------------------------------------ main entry
    def apply(self, op: dict) -> None:
        self.step += 1
        kind = op['k']
        resolver = getattr(self, f'r_{kind}', None)
        if resolver is None:
            raise HarnessError(f'unknown op kind {kind}')
        rop = resolver(op)
        if rop is None:
            self.log.append({'op': kind, 'skipped': True})
            return
        rop['op'] = kind
        for checker in self.checkers:
            checker.before(self, rop)
        try:
            result = getattr(self, f'x_{kind}')(rop)
        except Violation:
            raise
        except HarnessError:
            raise
        except Exception as exc:  # pylint: disable=broad-except
            self.log.append(_loggable(rop, error=repr(exc)))
            handled = False
            for checker in self.checkers:
                handled = checker.on_exception(self, rop, exc) or handled
            if not handled:
                raise self.viol(f'op-raised:{kind}:{type(exc).__name__}', f'{kind} raised {exc!r} on a valid call') from exc
            return
        self.stats[kind] = self.stats.get(kind, 0) + 1
        self.log.append(_loggable(rop, result=result))
        self.run_checkers(rop, result)

    def run_checkers(self, rop, result):
        """Run the oracles; an exception raised by LIBRARY code while a view is being read is a violation (a view of a valid
        state must answer), an exception raised by harness code is a harness error."""
        for checker in self.checkers:
            try:
                checker.after(self, rop, result)
            except (Violation, HarnessError):
                raise
            except Exception as exc:  # pylint: disable=broad-except
                if raised_in_library(exc):
                    raise self.viol(
                        f'view-raised:{type(exc).__name__}',
                        f'after {rop.get("op")}: a read-only view of the container raised {exc!r} ({library_frame(exc)})',
                    ) from exc
                raise HarnessError(f'checker {type(checker).__name__} failed: {exc!r}') from exc

    def finish(self):
        for checker in self.checkers:
            checker.final(self)

    # ------------------------------------------------------------------ add loose
    def r_add(self, op):
        data = self.content(op['a'])
        return {'via': op['f'] % 4, 'data': data, 'key': digest(self.hash_type, data), 'step_size': 1 + op['b'] % 70000}

    def x_add(self, rop):
        data = rop['data']
        via = rop['via']
        if via == 0:
            key = self.c.add_object(data)
        elif via == 1:
            key = self.c.add_streamed_object(io.BytesIO(data))
        elif via == 2:
            path = os.path.join(self.tmp, uuid.uuid4().hex)
            with open(path, 'wb') as fhandle:
                fhandle.write(data)
            with open(path, 'rb') as fhandle:
                key = self.c.add_streamed_object(fhandle)
            os.remove(path)
        else:
            key = self.c.add_streamed_object(ShortReadStream(data, rop['step_size']))
        if key != rop['key']:
            raise self.viol('wrong-key:add', f'add (via {via}) of {short(data)} returned {key}, digest is {rop["key"]}')
        if key in self.model:
            self.flags.add('dup-add')
        self.model[key] = data
        return key

    # ------------------------------------------------------------------ add directly to pack
    def r_addpack(self, op):
        idx = op['n'] or [op['a']]
        datas = [self.content(i) for i in idx]
        flags = op['f']
        rop = {
            'datas': datas,
            'keys': [digest(self.hash_type, d) for d in datas],
            'compress': bool(flags & 1),
            'no_holes': bool(flags & 2),
            'read_twice': bool(flags & 4),
            'callback': bool(flags & 8),
            'do_fsync': not flags & 16,
            'api': op['b'] % 5,
            'short_step': 1 + op['a'] * 37 % 5000,
        }
        if rop['api'] == 3:  # single-object API
            rop['datas'] = rop['datas'][:1]
            rop['keys'] = rop['keys'][:1]
        return rop

    def x_addpack(self, rop):
        from disk_objectstore.utils import LazyOpener  # pylint: disable=import-outside-toplevel
        from pathlib import Path  # pylint: disable=import-outside-toplevel

        datas = rop['datas']
        kwargs = {
            'compress': rop['compress'],
            'no_holes': rop['no_holes'],
            'no_holes_read_twice': rop['read_twice'],
            'do_fsync': rop['do_fsync'],
        }
        callback = RecordingCallback() if rop['callback'] else None
        api = rop['api']
        paths = []
        if api == 0:
            keys = self.c.add_objects_to_pack(datas, callback=callback, **kwargs)
        elif api == 1:
            keys = self.c.add_streamed_objects_to_pack([io.BytesIO(d) for d in datas], callback=callback, **kwargs)
        elif api == 2:
            for data in datas:
                path = os.path.join(self.tmp, uuid.uuid4().hex)
                with open(path, 'wb') as fhandle:
                    fhandle.write(data)
                paths.append(path)
            openers = [LazyOpener(Path(p)) for p in paths]
            keys = self.c.add_streamed_objects_to_pack(openers, open_streams=True, callback=callback, **kwargs)
            for path in paths:
                os.remove(path)
        elif api == 4:
            streams = [ShortReadStream(d, rop['short_step'] + i) for i, d in enumerate(datas)]
            keys = self.c.add_streamed_objects_to_pack(streams, callback=callback, **kwargs)
        else:
            keys = [
                self.c.add_streamed_object_to_pack(
                    io.BytesIO(datas[0]), callback=callback, callback_size_hint=len(datas[0]), **kwargs
                )
            ]
        if list(keys) != rop['keys']:
            raise self.viol('wrong-key:addpack', f'direct-to-pack (api {api}, {kwargs}) returned {keys}, expected {rop["keys"]}')
        if callback is not None:
            rop['cb_problem'] = callback.well_formed()
        if len(set(rop['keys'])) < len(rop['keys']) or any(k in self.model for k in rop['keys']):
            self.flags.add('dup-add')
            if rop['no_holes']:
                self.flags.add('no-holes-dup')
        for key, data in zip(rop['keys'], datas):
            self.model[key] = data
        return list(keys)

    # ------------------------------------------------------------------ a pack write that meets a stale lock file
    def r_stale_lock(self, op):
        idx = (op['n'] or [op['a']])[:3]
        datas = [self.content(i) for i in idx]
        return {'datas': datas, 'keys': [digest(self.hash_type, d) for d in datas], 'via_pack_all': op['b'] % 3 == 0,
                'compress': bool(op['f'] & 1), 'no_holes': bool(op['f'] & 2)}

    def x_stale_lock(self, rop):
        """A writer was killed inside its pack lock some time ago (the state C05 photographs): `<pack>.lock` of the pack that is
        being filled exists. The next pack write may be refused (FileExistsError) or may go through; the lock is then removed by
        hand, as the documentation of an interrupted write asks, and the history goes on."""
        raw = self.raw()
        ids = sorted(int(n) for n in raw.pack_names if n.isdigit())
        current = str(ids[-1]) if ids else '0'
        lock = os.path.join(self.path, 'packs', f'{current}.lock')
        with open(lock, 'x', encoding='utf8'):
            pass
        outcome = 'returned'
        try:
            if rop['via_pack_all']:
                for data in rop['datas']:
                    self.model[self.c.add_object(data)] = data
                self.c.pack_all_loose()
            else:
                keys = self.c.add_objects_to_pack(rop['datas'], compress=rop['compress'], no_holes=rop['no_holes'])
                if list(keys) != rop['keys']:
                    raise self.viol('wrong-key:stale-lock', f'direct-to-pack next to a stale lock returned {keys}')
        except FileExistsError:
            outcome = 'refused'
        finally:
            if os.path.exists(lock):
                os.remove(lock)
        stored = self.raw().keys()
        for key, data in zip(rop['keys'], rop['datas']):
            if key in stored:
                self.model[key] = data
        self.flags.add('stale-lock')
        self.flags.add(f'stale-lock:{outcome}')
        return outcome

    # ------------------------------------------------------------------ read calls nested inside an iteration
    def r_nested(self, op):
        return {'outer': op['b'] % 3, 'inner': op['b'] // 3 % 4, 'every': 1 + op['a'] % 3, 'pick': op['a'], 'stop': op['f'] % 8 == 0}

    def x_nested(self, rop):
        """The consumer of a generator (listing, bulk metadata, bulk streams) issues other read calls on the same handle between
        two items, as a loop body naturally does. Every answer must agree with the model."""
        from disk_objectstore.exceptions import NotExistent  # pylint: disable=import-outside-toplevel

        cont = self.c
        keys = sorted(self.model)
        absent = absent_key(self.hash_type, 3)
        query = keys + [absent]
        inner_kind = rop['inner']

        def inner(i):
            if inner_kind == 0:
                if cont.has_object(absent):
                    raise self.viol('nested:has-absent', 'has_object(absent key) is True inside an iteration')
            elif inner_kind == 1 and keys:
                key = keys[(rop['pick'] + i) % len(keys)]
                if cont.get_object_content(key) != self.model[key]:
                    raise self.viol('nested:get', f'get_object_content({key[:10]}) wrong inside an iteration')
            elif inner_kind == 2:
                try:
                    cont.get_object_meta(absent)
                except NotExistent:
                    pass
                else:
                    raise self.viol('nested:meta-absent', 'get_object_meta(absent key) answered inside an iteration')
            else:
                got = cont.has_objects(query)
                if got != [True] * len(keys) + [False]:
                    raise self.viol('nested:has_objects', f'has_objects inside an iteration = {got}')

        seen = []
        if rop['outer'] == 0:
            for i, key in enumerate(cont.list_all_objects()):
                seen.append(key)
                if i % rop['every'] == 0:
                    inner(i)
                if rop['stop'] and i >= 1:
                    break
            want = set(keys)
        elif rop['outer'] == 1:
            for i, (key, meta) in enumerate(cont.get_objects_meta(query, skip_if_missing=False)):
                seen.append(key)
                if key in self.model and meta.size != len(self.model[key]):
                    raise self.viol('nested:meta-size', f'size {meta.size} for {key[:10]} inside a nested iteration')
                if i % rop['every'] == 0:
                    inner(i)
                if rop['stop'] and i >= 1:
                    break
            want = set(query)
        else:
            with cont.get_objects_stream_and_meta(query, skip_if_missing=False) as triplets:
                for i, (key, stream, _meta) in enumerate(triplets):
                    seen.append(key)
                    if i % rop['every'] == 0:
                        inner(i)
                    if key in self.model:
                        if stream is None or stream.read() != self.model[key]:
                            raise self.viol('nested:stream', f'stream of {key[:10]} wrong after a nested call')
                    elif stream is not None:
                        raise self.viol('nested:stream-absent', 'a stream was returned for an absent key')
                    if rop['stop'] and i >= 1:
                        break
            want = set(query)
        if len(seen) != len(set(seen)):
            raise self.viol('nested:dup', 'an iteration with nested calls yielded a key twice')
        if not rop['stop'] and set(seen) != want:
            raise self.viol('nested:set', f'iteration with nested calls yielded {len(seen)} keys, expected {len(want)}')
        if rop['stop'] and not set(seen) <= want:
            raise self.viol('nested:set', 'iteration with nested calls yielded an unexpected key')
        self.flags.add('nested-read')
        return len(seen)

    # ------------------------------------------------------------------ a write call whose input stream fails
    def r_addfail(self, op):
        idx = (op['n'] or [op['a']])[:4]
        datas = [self.content(i) for i in idx]
        flags = op['f']
        return {
            'datas': datas,
            'keys': [digest(self.hash_type, d) for d in datas],
            'compress': bool(flags & 1),
            'no_holes': bool(flags & 2),
            'read_twice': bool(flags & 4),
            'do_fsync': not flags & 16,
            'retry': bool(flags & 8),
            'loose': op['b'] % 4 == 0,
            'which': op['b'] // 4 % len(datas),
            'frac': op['b'] // 16 % 5,  # the stream fails after 0, 1/4, 1/2, 3/4 or all-but-nothing of its bytes
            'short_step': 1 + op['a'] * 37 % 5000,
        }

    def x_addfail(self, rop):
        """The call must raise the caller's own exception; what it stored before that is then read from the disk (each
        object of the batch is either stored completely or not at all) and the history goes on on the same handle."""
        datas = rop['datas']
        which = rop['which']
        fail_at = len(datas[which]) * rop['frac'] // 4
        streams = [
            FailingStream(d, fail_at, rop['short_step']) if i == which else io.BytesIO(d) for i, d in enumerate(datas)
        ]
        raised = None
        try:
            if rop['loose']:
                got = self.c.add_streamed_object(streams[which])
                batch = [which]
            else:
                got = self.c.add_streamed_objects_to_pack(
                    streams, compress=rop['compress'], no_holes=rop['no_holes'], no_holes_read_twice=rop['read_twice'],
                    do_fsync=rop['do_fsync'],
                )
                batch = list(range(len(datas)))
        except CallerStreamError as exc:
            raised = exc
            batch = [which] if rop['loose'] else list(range(len(datas)))
        if raised is None:
            raise self.viol('failing-stream-ignored', f'the write call returned {got!r} although its input stream raised')
        raw = self.raw()
        stored = raw.keys()
        for i in batch:
            if rop['keys'][i] in stored:
                self.model[rop['keys'][i]] = datas[i]
        self.flags.add('failed-write')
        out = {'raised': type(raised).__name__, 'stored': sorted(k[:10] for k in stored if k in rop['keys'])}
        if rop['retry']:
            # what a caller does next: the same call again, with healthy streams, on the same handle
            if rop['loose']:
                keys = [self.c.add_streamed_object(io.BytesIO(datas[which]))]
            else:
                keys = self.c.add_streamed_objects_to_pack(
                    [io.BytesIO(d) for d in datas], compress=rop['compress'], no_holes=rop['no_holes'],
                    no_holes_read_twice=rop['read_twice'], do_fsync=rop['do_fsync'],
                )
            want = [rop['keys'][i] for i in batch]
            if list(keys) != want:
                raise self.viol('wrong-key:retry', f'retry after a failed write returned {keys}, expected {want}')
            for i in batch:
                self.model[rop['keys'][i]] = datas[i]
            self.flags.add('retry-after-failed-write')
            out['retried'] = True
        return out

    def r_addpack_off(self, op):
        """Direct-to-pack from streams that are NOT positioned at zero (the caller consumed a header). Whatever the library
        decides to store (the tail or the whole stream), key, index and bytes must stay mutually consistent."""
        idx = (op['n'] or [op['a']])[:3]
        datas = [self.content(i) for i in idx]
        flags = op['f']
        return {
            'datas': datas,
            'offsets': [(op['a'] + 7 * i) % (len(d) + 1) for i, d in enumerate(datas)],
            'compress': bool(flags & 1),
            'no_holes': bool(flags & 2),
            'read_twice': bool(flags & 4),
            'single': bool(flags & 8),
        }

    def x_addpack_off(self, rop):
        streams = []
        for data, offset in zip(rop['datas'], rop['offsets']):
            stream = io.BytesIO(data)
            stream.read(offset)
            streams.append(stream)
        kwargs = {'compress': rop['compress'], 'no_holes': rop['no_holes'], 'no_holes_read_twice': rop['read_twice']}
        if rop['single']:
            streams, datas, offsets = streams[:1], rop['datas'][:1], rop['offsets'][:1]
            keys = [self.c.add_streamed_object_to_pack(streams[0], **kwargs)]
        else:
            datas, offsets = rop['datas'], rop['offsets']
            keys = self.c.add_streamed_objects_to_pack(streams, **kwargs)
        if len(keys) != len(datas):
            raise self.viol('wrong-key:addpack_off', f'{len(keys)} keys returned for {len(datas)} streams')
        for key, data, offset in zip(keys, datas, offsets):
            if key == digest(self.hash_type, data[offset:]):
                self.model[key] = data[offset:]
            elif key == digest(self.hash_type, data):
                self.model[key] = data
            else:
                raise self.viol('wrong-key:addpack_off', f'stream of {len(data)} bytes at offset {offset}: returned key {key[:10]} is the digest of neither the tail nor the whole stream')
        self.flags.add('stream-at-offset')
        return list(keys)

    # ------------------------------------------------------------------ pack / clean / repack
    def r_pack(self, op):
        flags = op['f']
        return {
            'mode': MODES_PACK[op['b'] % len(MODES_PACK)],
            'validate_objects': not flags & 1,
            'clean_loose_per_pack': bool(flags & 2),
            'callback': bool(flags & 4),
            'do_fsync': not flags & 8,
        }

    def x_pack(self, rop):
        callback = RecordingCallback() if rop['callback'] else None
        self.c.pack_all_loose(
            compress=_mode(rop['mode']),
            validate_objects=rop['validate_objects'],
            clean_loose_per_pack=rop['clean_loose_per_pack'],
            callback=callback,
            do_fsync=rop['do_fsync'],
        )
        if callback is not None:
            rop['cb_problem'] = callback.well_formed()
        self._maint_flag()

    def _maint_flag(self):
        if 'deleted' in self.flags or 'dup-add' in self.flags:
            self.flags.add('maint-after-mutation')

    def r_clean(self, op):
        return {'vacuum': bool(op['f'] & 1)}

    def x_clean(self, rop):
        self.c.clean_storage(vacuum=rop['vacuum'])
        self._maint_flag()

    def r_repack(self, op):
        return {'mode': MODES_REPACK[op['b'] % 4], 'callback': bool(op['f'] & 1)}

    def x_repack(self, rop):
        callback = RecordingCallback() if rop['callback'] else None
        self.c.repack(compress_mode=_mode(rop['mode']), callback=callback)
        self._maint_flag()
        if 'deleted' in self.flags:
            self.flags.add('repack-after-delete')

    def r_repack_pack(self, op):
        packs = sorted(n for n in os.listdir(os.path.join(self.path, 'packs')) if n.isdigit())
        if not packs:
            return None
        return {'pack': packs[op['a'] % len(packs)], 'mode': MODES_REPACK[op['b'] % 4], 'callback': bool(op['f'] & 1)}

    def x_repack_pack(self, rop):
        callback = RecordingCallback() if rop['callback'] else None
        self.c.repack_pack(rop['pack'], compress_mode=_mode(rop['mode']), callback=callback)
        self._maint_flag()

    # ------------------------------------------------------------------ delete
    def r_delete(self, op):
        sels = op['n'] or [op['a']]
        keys = self.select_keys(sels, self.present(), self.hash_type)
        return {'keys': keys, 'expected': sorted(set(keys) & set(self.model))}

    def x_delete(self, rop):
        ret = self.c.delete_objects(rop['keys'])
        for key in rop['expected']:
            del self.model[key]
            self.deleted.append(key)
        self.deleted = self.deleted[-6:]
        if rop['expected']:
            self.flags.add('deleted')
        return sorted(ret) if isinstance(ret, (list, tuple, set)) else ret

    # ------------------------------------------------------------------ loosen / seeking read
    def r_loosen(self, op):
        keys = self.present()
        if not keys:
            return None
        return {'key': keys[op['a'] % len(keys)]}

    def x_loosen(self, rop):
        path = self.c.loosen_object(rop['key'])
        with open(path, 'rb') as fhandle:
            got = fhandle.read()
        if got != self.model[rop['key']]:
            raise self.viol('loosen-wrong-bytes', f'loosen_object({rop["key"][:10]}) left {short(got)}')
        self.flags.add('loosened')

    def r_seekread(self, op):
        keys = self.present()
        if not keys:
            return None
        return {'key': keys[op['a'] % len(keys)], 'x': op['b']}

    def x_seekread(self, rop):
        data = self.model[rop['key']]
        size = len(data)
        with self.c.get_object_stream(rop['key']) as stream:
            head = stream.read(min(3, size))
            if head != data[: min(3, size)]:
                raise self.viol('seekread-wrong-bytes', f'head read {short(head)}')
            back = min(size, 1 + rop['x'] % 7)
            stream.seek(-back, 2)  # the value returned by seek is judged by C07, not here
            tail = stream.read()
            if tail != data[size - back :]:
                raise self.viol('seekread-wrong-bytes', f'tail read {short(tail)} expected {short(data[size - back:])}')
        self.flags.add('seekread')

    # ------------------------------------------------------------------ import from the auxiliary container
    def r_aux_add(self, op):
        data = self.content(op['a'])
        return {'data': data, 'form': op['f'] % 3, 'key': digest(self.aux_cfg['hash_type'], data)}

    def x_aux_add(self, rop):
        aux = self.get_aux()
        if rop['form'] == 0:
            key = aux.add_object(rop['data'])
        else:
            key = aux.add_objects_to_pack([rop['data']], compress=rop['form'] == 2)[0]
        if key != rop['key']:
            raise self.viol('wrong-key:aux', f'aux add returned {key}')
        self.aux_model[key] = rop['data']

    def r_import(self, op):
        aux_keys = sorted(self.aux_model)
        sels = op['n'] or [op['a']]
        keys = self.select_keys(sels, aux_keys, self.aux_cfg['hash_type'], salt=100)
        sizes = sorted(len(v) for v in self.aux_model.values()) or [0]
        budget_choice = op['b'] % 3
        budget = (1, sizes[len(sizes) // 2] + 1, 104857600)[budget_choice]
        if op['f'] & 8 and budget_choice:
            budget = sizes[-1] + 1  # every object fits the cache, which is flushed whenever the next one would overflow it
        return {
            'keys': keys,
            'iterable': op['a'] % 4,
            'compress': bool(op['f'] & 1),
            'callback': bool(op['f'] & 2),
            'do_fsync': not op['f'] & 4,
            'budget': budget,
        }

    def x_import(self, rop):
        aux = self.get_aux()
        keys = rop['keys']
        kind = rop['iterable']
        if kind == 0:
            iterable = list(keys)
        elif kind == 1:
            iterable = tuple(keys)
        elif kind == 2:
            iterable = set(keys)
        else:
            iterable = (k for k in keys)
        callback = RecordingCallback() if rop['callback'] else None
        mapping = self.c.import_objects(
            iterable,
            aux,
            compress=rop['compress'],
            target_memory_bytes=rop['budget'],
            callback=callback,
            do_fsync=rop['do_fsync'],
        )
        if callback is not None:
            rop['cb_problem'] = callback.well_formed()
        wanted = {k for k in keys if k in self.aux_model}
        for old, new in dict(mapping).items():
            if old not in self.aux_model or new != digest(self.hash_type, self.aux_model[old]):
                raise self.viol('import-mapping', f'import_objects mapping sends {old[:10]} to {new[:10]}, which is not the key of its content here')
        for key in wanted:
            data = self.aux_model[key]
            self.model[digest(self.hash_type, data)] = data
        rop['wanted'] = sorted(wanted)
        self.flags.add('imported')
        return dict(mapping)

    # ------------------------------------------------------------------ handles
    def r_reopen(self, op):
        return {}

    def x_reopen(self, rop):
        self.c.close()
        self.handles[self.cur] = self.Container(self.path)
        self.flags.add('reopened')
        if 'mutated-since-open' in self.flags:
            self.flags.add('reopen-after-mutation')

    def r_switch(self, op):
        if len(self.handles) < 2:
            return None
        return {'to': op['a'] % len(self.handles)}

    def x_switch(self, rop):
        if rop['to'] != self.cur:
            self.flags.add('handle-switch')
        self.cur = rop['to']

    def r_reinit(self, op):
        return {}

    def x_reinit(self, rop):
        try:
            self.c.init_container()
        except FileExistsError:
            return
        raise self.viol('reinit-accepted', 'init_container() on an initialised container did not raise FileExistsError')

    # ------------------------------------------------------------------ planted states
    def r_plant_dup(self, op):
        keys = self.present()
        if not keys:
            return None
        return {'key': keys[op['a'] % len(keys)], 'good': not op['f'] & 1, 'tag': op['b'] % 1000}

    def x_plant_dup(self, rop):
        data = self.model[rop['key']] if rop['good'] else b'corrupt duplicate'
        path = os.path.join(self.path, 'duplicates', f"{rop['key']}.{rop['tag']:032x}")
        with open(path, 'wb') as fhandle:
            fhandle.write(data)
        self.flags.add('planted-dup')

    def r_damage_readd(self, op):
        raw_loose = sorted(set(self.raw().loose_paths) & set(self.model))
        if not raw_loose:
            return None
        key = raw_loose[op['a'] % len(raw_loose)]
        return {'key': key, 'how': op['f'] % 5, 'via': op['b'] % 2}

    def x_damage_readd(self, rop):
        key = rop['key']
        data = self.model[key]
        path = self.raw().loose_paths[key]
        if rop['how'] == 0:
            damaged = b'garbage' + data[:5]
        elif rop['how'] == 1:
            damaged = data[: len(data) // 2] if data else b'x'
        elif rop['how'] == 2 or not data:
            damaged = data + b'\x00'
        elif rop['how'] == 3:  # same size, one byte flipped in the middle
            mid = len(data) // 2
            damaged = data[:mid] + bytes([data[mid] ^ 0x20]) + data[mid + 1 :]
        else:  # same size, tail overwritten
            damaged = data[:-3] + bytes(b ^ 0xFF for b in data[-3:])
        with open(path, 'wb') as fhandle:
            fhandle.write(damaged)
        if rop['via'] == 0:
            got = self.c.add_object(data)
        else:
            got = self.c.add_streamed_object(io.BytesIO(data))
        if got != key:
            raise self.viol('wrong-key:readd', f're-adding damaged {key[:10]} returned {got}')
        with open(path, 'rb') as fhandle:
            now = fhandle.read()
        if now != data:
            raise self.viol(
                'damaged-copy-kept', f're-adding content of damaged loose {key[:10]} left {short(now)} in place', prop='C09'
            )
        self.flags.add('damage-readd')


def _frames(exc):
    import traceback  # pylint: disable=import-outside-toplevel

    return traceback.extract_tb(exc.__traceback__)


def raised_in_library(exc) -> bool:
    from .common import REPO  # pylint: disable=import-outside-toplevel

    prefix = os.path.join(os.path.realpath(REPO), 'disk_objectstore') + os.sep
    return any(os.path.realpath(frame.filename).startswith(prefix) for frame in _frames(exc))


def library_frame(exc) -> str:
    from .common import REPO  # pylint: disable=import-outside-toplevel

    prefix = os.path.join(os.path.realpath(REPO), 'disk_objectstore') + os.sep
    frames = [f for f in _frames(exc) if os.path.realpath(f.filename).startswith(prefix)]
    if not frames:
        return ''
    last = frames[-1]
    return f'{os.path.basename(last.filename)}:{last.name}'


def _loggable(rop, **extra):
    out = {}
    for name, value in list(rop.items()) + list(extra.items()):
        if isinstance(value, bytes):
            out[name] = short(value, 6)
        elif isinstance(value, list) and value and isinstance(value[0], bytes):
            out[name] = [short(v, 6) for v in value]
        elif isinstance(value, list) and value and isinstance(value[0], str) and len(value[0]) > 12:
            out[name] = [v[:10] for v in value]
        elif isinstance(value, str) and len(value) >= 40:
            out[name] = value[:10]
        elif isinstance(value, dict):
            out[name] = {str(k)[:10]: str(v)[:10] for k, v in list(value.items())[:8]}
        else:
            out[name] = value
    return out


class Checker:
    """Base class of per-property oracles that observe every step."""

    def before(self, world, rop):
        pass

    def after(self, world, rop, result):
        pass

    def on_exception(self, world, rop, exc):  # pylint: disable=unused-argument
        """Return True if the exception is acceptable for this property (state is then checked by `after_exception`)."""
        return False

    def final(self, world):
        pass


def run_case(case: dict, checkers_factory, prop: str, nhandles: int = 1):
    """Run one history. Returns the world (closed) for statistics; raises Violation."""
    from .common import new_dir, rm_dir  # pylint: disable=import-outside-toplevel

    root = new_dir('hist')
    world = World(root, case, checkers=checkers_factory(), prop=prop, nhandles=nhandles)
    try:
        world.run_checkers({'op': 'init'}, None)
        for op in case['ops']:
            world.apply(op)
        world.finish()
        return world
    except Violation as exc:
        exc.log = world.log
        raise
    finally:
        world.close()
        rm_dir(root)
