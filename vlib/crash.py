"""Fork-based execution of ONE operation under the shim with a kill / power-loss / fault consumer, and the oracles that
inspect the container afterwards (C05, C06, C17)."""

from __future__ import annotations

import json
import os
import shutil
import sqlite3
import sys
import traceback

from .common import HarnessError, Violation, digest, short
from .rawread import RawState
from .shim import MUTATING_KINDS, Consumer, Shim, eio

KILL_EXIT = 77
SQLITE_FILES = ('packs.idx', 'packs.idx-wal', 'packs.idx-shm', 'packs.idx-journal')


# ---------------------------------------------------------------------------------------------
# consumers (all run inside the forked child)


class PointCounter(Consumer):
    """Records the events that count as fault points."""

    def __init__(self, kinds, root):
        self.kinds = kinds
        self.root = root
        self.points = []

    def counts(self, event):
        return self.kinds is None or event.kind in self.kinds

    def before(self, event):
        if self.counts(event):
            self.points.append([event.kind, event.brief(self.root)])


class KillAt(PointCounter):
    """Dies (os._exit: no finally, no buffer flush) just before the k-th counted event; optionally tears a write."""

    def __init__(self, kinds, root, k, torn=False, report=None):
        super().__init__(kinds, root)
        self.k = k
        self.torn = torn
        self.report = report

    def before(self, event):
        if not self.counts(event):
            return
        if len(self.points) == self.k:
            self.die(event)
        self.points.append([event.kind, event.brief(self.root)])

    def prepare_death(self, event):
        pass

    def die(self, event):
        if self.torn and event.kind == 'write' and event.data is not None and len(event.data) > 1:
            os.write(event.fobj.fileno(), bytes(event.data[: len(event.data) // 2]))
        self.prepare_death(event)
        if self.report:
            with open(self.report, 'w', encoding='utf8') as fhandle:
                json.dump({'status': 'killed', 'kind': event.kind, 'event': event.brief(self.root)}, fhandle)
        os._exit(KILL_EXIT)


class PowerLossAt(KillAt):
    """As KillAt, but first reverts every regular file (except the SQLite files, whose commits are trusted durable) to the
    content it had at the last fsync of a descriptor on its inode (content at operation start if never synced since; empty
    if created during the operation and never synced). Directory operations survive."""

    def __init__(self, kinds, root, k, report=None):
        super().__init__(kinds, root, k, torn=False, report=report)
        self.synced = {}
        self.baseline = {}
        self.sync_log = []

    def start(self):
        for path in _walk_files(self.root):
            try:
                st = os.stat(path)
                with open(path, 'rb') as fhandle:
                    self.baseline[st.st_ino] = fhandle.read()
            except OSError:
                pass

    def after(self, event):
        if event.kind == 'fsync' and event.detail != 'dir':
            try:
                st = os.stat(event.path)
                with open(event.path, 'rb') as fhandle:
                    self.synced[st.st_ino] = fhandle.read()
            except OSError:
                pass

    def prepare_death(self, event):
        for path in _walk_files(self.root):
            try:
                st = os.stat(path)
                with open(path, 'rb') as fhandle:
                    current = fhandle.read()
            except OSError:
                continue
            durable = self.synced.get(st.st_ino, self.baseline.get(st.st_ino, b''))
            if durable != current:
                with open(path, 'r+b') as fhandle:
                    fhandle.seek(0)
                    fhandle.write(durable)
                    fhandle.truncate(len(durable))


class Snapshotter(PointCounter):
    """Copies the container folder immediately before every counted event.

    What a process kill before event k leaves behind is exactly the file-system state at that moment: the kill only loses
    user-space state (Python buffers, uncommitted SQLite pages still in memory), which by definition never reached the
    files. So one unkilled run yields the post-kill image of EVERY kill point (cross-checked against real fork+os._exit
    kills by `crosscheck_kill`). mode 'kill': plain image (+ a torn-write image for raw writes: half of the buffer
    appended). mode 'powerloss': every regular file except the SQLite files is reverted, in the image, to the content it had
    at the last fsync of a descriptor on its inode (content at operation start if not synced since; empty if created during
    the operation and never synced); directory operations and SQLite commits survive.
    """

    def __init__(self, kinds, root, snapdir, mode='kill', torn=True):
        super().__init__(kinds, root)
        self.snapdir = snapdir
        self.mode = mode
        self.torn = torn
        self.synced = {}
        self.baseline = {}
        self.images = []  # (k, variant, path)

    def start(self):
        if self.mode == 'powerloss':
            for path in _walk_files(self.root):
                try:
                    st = os.stat(path)
                    with open(path, 'rb') as fhandle:
                        self.baseline[st.st_ino] = fhandle.read()
                except OSError:
                    pass

    def after(self, event):
        if self.mode == 'powerloss' and event.kind == 'fsync' and event.detail != 'dir':
            try:
                st = os.stat(event.path)
                with open(event.path, 'rb') as fhandle:
                    self.synced[st.st_ino] = fhandle.read()
            except OSError:
                pass

    def before(self, event):
        if not self.counts(event):
            return
        k = len(self.points)
        self.points.append([event.kind, event.brief(self.root)])
        dest = os.path.join(self.snapdir, f'k{k}')
        self._copy(dest)
        self.images.append((k, 'plain', dest))
        if self.mode == 'kill' and self.torn and event.kind == 'write' and event.data is not None and len(event.data) > 1:
            dest = os.path.join(self.snapdir, f'k{k}t')
            self._copy(dest)
            rel = os.path.relpath(event.path, self.root)
            with open(os.path.join(dest, 'c', rel), 'ab') as fhandle:
                fhandle.write(bytes(event.data[: len(event.data) // 2]))
            self.images.append((k, 'torn', dest))

    def final_image(self):
        """One more image after the last event: the operation has returned (its handle may still be open)."""
        k = len(self.points)
        dest = os.path.join(self.snapdir, f'k{k}')
        self._copy(dest)
        self.points.append(['returned', 'operation returned'])
        self.images.append((k, 'plain', dest))

    def _copy(self, dest):
        target = os.path.join(dest, 'c')
        shutil.copytree(self.root, target, symlinks=True)
        if self.mode != 'powerloss':
            return
        for path in _walk_files(self.root):
            try:
                st = os.stat(path)
            except OSError:
                continue
            durable = self.synced.get(st.st_ino, self.baseline.get(st.st_ino, b''))
            copy = os.path.join(target, os.path.relpath(path, self.root))
            try:
                with open(copy, 'rb') as fhandle:
                    current = fhandle.read()
            except OSError:
                continue
            if current != durable:
                with open(copy, 'wb') as fhandle:
                    fhandle.write(durable)


WARM_UPS = ('none', 'repack', 'clean+vacuum', 'has-absent', 'list', 'read', 'store-known-no-holes', 'pack-all')


def warm_up(world, rop):
    """Model-preserving calls made through the SAME handle before the observed operation (not counted, not faulted): a process
    that dies or meets a fault during an operation has usually done other things with its handle before (session state,
    caches, a VACUUM behind SQLAlchemy's back, ...)."""
    from .common import absent_key  # pylint: disable=import-outside-toplevel
    from .interp import raised_in_library  # pylint: disable=import-outside-toplevel

    for choice in rop.get('prelude') or ():
        name = WARM_UPS[choice % len(WARM_UPS)]
        cont = world.c
        try:
            if name == 'repack':
                cont.repack()
            elif name == 'clean+vacuum':
                cont.clean_storage(vacuum=True)
            elif name == 'has-absent':
                cont.has_object(absent_key(world.hash_type, 4))
            elif name == 'list':
                list(cont.list_all_objects())
            elif name == 'read' and world.model:
                key = sorted(world.model)[choice // len(WARM_UPS) % len(world.model)]
                cont.get_object_content(key)
            elif name == 'store-known-no-holes' and world.model:
                # content the container already holds, through both write paths (fills whatever the handle caches about keys)
                keys = sorted(world.model)
                data = world.model[keys[choice // len(WARM_UPS) % len(keys)]]
                cont.add_object(data)
                cont.add_objects_to_pack([data], no_holes=True)
            elif name == 'pack-all':
                cont.pack_all_loose()
        except Exception as exc:  # pylint: disable=broad-except
            if raised_in_library(exc):
                raise Violation(rop.get('prop_id', world.prop), f'warm-up-raised:{name}:{type(exc).__name__}', f'{name} on a reachable state raised {exc!r}') from exc
            raise


def run_in_process(work, case, model, aux_model, rop, consumer, trace_reads=False, warm=True):
    """Attach to the containers under `work`, run `rop` under the shim with `consumer`, close. Returns the outcome dict."""
    from .interp import World  # pylint: disable=import-outside-toplevel

    root = os.path.join(work, 'c')
    shim = Shim(root, consumer, trace_reads=trace_reads)
    world = World(work, case, attach=(model, aux_model))
    outcome = {'status': 'returned'}
    try:
        if warm:
            warm_up(world, rop)
        if hasattr(consumer, 'start'):
            consumer.start()
        shim.install()
        shim.activate('op')
        try:
            outcome['result'] = getattr(world, 'x_' + rop['op'])(rop)
        except Violation as exc:
            outcome = {'status': 'violation', 'sig': exc.sig, 'msg': exc.msg}
        except Exception as exc:  # pylint: disable=broad-except
            outcome = {'status': 'raised', 'type': type(exc).__name__, 'repr': repr(exc)[:300]}
            exc = None
    finally:
        shim.deactivate()
        shim.uninstall()
        if hasattr(consumer, 'final_image') and outcome.get('status') == 'returned':
            consumer.final_image()
        try:
            world.close()
        except Exception:  # pylint: disable=broad-except
            pass
    outcome['points'] = consumer.points
    outcome['fired'] = getattr(consumer, 'fired', None)
    return outcome


def _walk_files(root):
    for dirpath, _, files in os.walk(root):
        for name in files:
            if name in SQLITE_FILES and os.path.normpath(dirpath) == os.path.normpath(root):
                continue
            yield os.path.join(dirpath, name)


class FaultAt(PointCounter):
    """Raises an I/O error instead of executing the k-th counted event (all other calls succeed)."""

    def __init__(self, kinds, root, k, short_write=False):
        super().__init__(kinds, root)
        self.k = k
        self.short_write = short_write
        self.fired = None

    def before(self, event):
        if not self.counts(event):
            return
        index = len(self.points)
        self.points.append([event.kind, event.brief(self.root)])
        if index != self.k:
            return
        self.fired = [event.kind, event.brief(self.root)]
        if event.kind.startswith('sql'):
            if event.detail == 'commit':
                # the commit hook runs outside SQLAlchemy's DBAPI error wrapping: raise what a failing COMMIT really surfaces as
                from sqlalchemy.exc import OperationalError  # pylint: disable=import-outside-toplevel

                raise OperationalError('COMMIT', None, sqlite3.OperationalError('disk I/O error (injected)'))
            raise sqlite3.OperationalError('disk I/O error (injected)')
        if event.kind == 'write' and self.short_write and event.data is not None and len(event.data) > 1:
            os.write(event.fobj.fileno(), bytes(event.data[: len(event.data) // 2]))
        raise eio(f'injected I/O error at {event.kind}')


# ---------------------------------------------------------------------------------------------
# running one resolved operation in a forked child


def run_in_child(work, case, model, aux_model, rop, make_consumer, trace_reads=False, timeout=120):
    """Fork; in the child attach to the containers under `work`, run `rop` under the shim, report and exit.

    Returns (exit_code, report dict or None). The report is written by the child: on normal completion
    {'status': 'returned'|'raised'|'violation', 'points': [...], ...}; on a kill {'status': 'killed', 'kind': ...}.
    """
    report_path = os.path.join(work, 'report.json')
    sys.stdout.flush()
    sys.stderr.flush()
    pid = os.fork()
    if pid == 0:
        code = 3
        try:
            from .interp import World  # pylint: disable=import-outside-toplevel

            root = os.path.join(work, 'c')
            consumer = make_consumer(os.path.realpath(root) + os.sep, report_path)
            shim = Shim(root, consumer, trace_reads=trace_reads)
            world = World(work, case, attach=(model, aux_model))
            warm_up(world, rop)
            if hasattr(consumer, 'start'):
                consumer.start()
            shim.install()
            shim.activate('op')
            outcome = {'status': 'returned'}
            try:
                result = getattr(world, 'x_' + rop['op'])(rop)
                outcome['result'] = result if isinstance(result, (list, dict, str, int, type(None))) else repr(result)
            except Violation as exc:
                outcome = {'status': 'violation', 'sig': exc.sig, 'msg': exc.msg}
            except BaseException as exc:  # pylint: disable=broad-except
                outcome = {'status': 'raised', 'type': type(exc).__name__, 'repr': repr(exc)[:300]}
            shim.deactivate()
            shim.uninstall()
            outcome['points'] = consumer.points
            outcome['fired'] = getattr(consumer, 'fired', None)
            try:
                world.close()
            except Exception:  # pylint: disable=broad-except
                pass
            with open(report_path, 'w', encoding='utf8') as fhandle:
                json.dump(outcome, fhandle, default=str)
            code = 0
        except BaseException:  # pylint: disable=broad-except
            traceback.print_exc()
            code = 3
        finally:
            sys.stdout.flush()
            sys.stderr.flush()
            os._exit(code)
    _, status = os.waitpid(pid, 0)
    code = os.waitstatus_to_exitcode(status)
    report = None
    if os.path.exists(report_path):
        try:
            with open(report_path, encoding='utf8') as fhandle:
                report = json.load(fhandle)
        except ValueError:
            report = None
        os.remove(report_path)
    if code not in (0, KILL_EXIT):
        raise HarnessError(f'child exited with {code} (report {report})')
    return code, report


# ---------------------------------------------------------------------------------------------
# expected effect of an operation, and the oracles


def expected_effect(rop, model, aux_model, hash_type):
    """(candidates: key->bytes that may/should appear, deleted: set of keys that may/should disappear)."""
    kind = rop['op']
    candidates, deleted = {}, set()
    if kind == 'add':
        candidates[rop['key']] = rop['data']
    elif kind == 'addpack':
        candidates.update(zip(rop['keys'], rop['datas']))
    elif kind == 'import':
        for key in rop['keys']:
            if key in aux_model:
                candidates[digest(hash_type, aux_model[key])] = aux_model[key]
    elif kind == 'delete':
        deleted = set(rop['expected'])
    elif kind == 'add_over_damaged':
        candidates[rop['key']] = rop['data']
    return candidates, deleted


def inspect_state(work, prop, model, candidates, deleted, planted=None, context='', complete=False, container_cls=None):
    """Oracle on the container left behind (after a kill, a power loss, or a faulted operation).

    * raw (sqlite3 + slices + zlib): every stored object not targeted by a deletion is still there; every visible key (loose
      file or index row) carries exactly the bytes of its digest; no key outside model + candidates is visible.
    * fresh handle: every key of model + candidates + deleted reads as its right bytes, or NotExistent (candidates and deletion
      targets only), or fails loudly only while the raw reader shows its row pointing at the temporary repack pack -1.
    * complete=True (the operation returned normally): the state must equal model + candidates - deleted exactly.
    """
    from disk_objectstore.exceptions import NotExistent  # pylint: disable=import-outside-toplevel

    if container_cls is None:
        from disk_objectstore import Container as container_cls  # pylint: disable=import-outside-toplevel

    planted = planted or {}
    folder = os.path.join(work, 'c')
    raw = RawState(folder)
    universe = dict(model)
    universe.update(candidates)
    hash_type = raw.hash_type

    def viol(sig, msg):
        return Violation(prop, sig, f'{msg} [{context}]')

    rows = raw.rows_by_key()
    for key, krows in rows.items():
        if len(krows) > 1:
            raise viol('raw:dup-key', f'{key[:10]} indexed {len(krows)} times')
        row = krows[0]
        content, problem = raw.row_content(row)
        if problem:
            raise viol('raw:bad-row', problem)
        if digest(hash_type, content) != key or len(content) != row.size:
            raise viol('raw:torn-packed', f'index row {key[:10]} (pack {row.pack_id}@{row.offset}+{row.length}) holds {short(content)} - not the bytes of its key')
        if key not in universe:
            raise viol('raw:foreign-row', f'index row for {key[:10]} which was never stored or requested')
    for key in raw.loose_paths:
        data = raw.loose_bytes(key)
        if key in planted and data == planted[key]:
            continue  # the damage we planted ourselves before the operation is still there
        if digest(hash_type, data) != key:
            raise viol('raw:torn-loose', f'loose file {key[:10]} holds {short(data)} ({len(data)} bytes) - not the bytes of its key')
        if key not in universe:
            raise viol('raw:foreign-loose', f'loose file {key[:10]} which was never stored or requested')
    visible = set(rows) | set(raw.loose_paths)
    for key in model:
        if key not in deleted and key not in visible:
            raise viol('raw:lost', f'previously stored object {key[:10]} is neither indexed nor loose any more')
    if complete:
        want = (set(model) | set(candidates)) - deleted
        if visible != want:
            raise viol(
                'complete:keys',
                f'operation returned normally but stored keys differ from the model: missing {sorted(k[:8] for k in want - visible)} '
                f'extra {sorted(k[:8] for k in visible - want)}',
            )
    repack_rows = {key for key, krows in rows.items() if krows[0].pack_id == -1}
    # fresh handle
    cont = container_cls(folder)
    try:
        for key in sorted(set(universe) | deleted):
            data = universe.get(key)
            try:
                got = cont.get_object_content(key)
            except NotExistent:
                if key in model and key not in deleted:
                    raise viol('fresh:not-found', f'fresh handle does not find previously stored {key[:10]}') from None
                continue
            except Exception as exc:  # pylint: disable=broad-except
                if key in repack_rows:
                    continue  # interrupted repack: loud failure is the documented exception
                if key in planted and key in raw.loose_paths and raw.loose_bytes(key) == planted[key]:
                    continue
                raise viol('fresh:raises', f'fresh handle raises {exc!r} for {key[:10]} (no interrupted repack)') from exc
            if got != data:
                if key in planted and got == planted[key]:
                    continue
                raise viol('fresh:wrong-bytes', f'fresh handle returns {short(got)} for {key[:10]}, expected {short(data or b"")}')
    finally:
        cont.close()
    return raw


def remove_stale_locks(work):
    pdir = os.path.join(work, 'c', 'packs')
    removed = 0
    for name in os.listdir(pdir):
        if name.endswith('.lock'):
            os.remove(os.path.join(pdir, name))
            removed += 1
    return removed


def copy_state(master, work):
    shutil.rmtree(work, ignore_errors=True)
    shutil.copytree(master, work, symlinks=True)
