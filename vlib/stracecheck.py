"""Completeness self-test of the I/O shim: the same scenario is run once under `strace` and once under the shim; every
state-changing system call strace sees on a container path (SQLite's own files excepted) must have been seen by the shim.

This guards the crash / power-loss / fault enumerations (C05, C06, C17) against a change of the library that starts doing
I/O through a call the shim does not interpose: such a change would otherwise silently shrink the explored space.
"""

from __future__ import annotations

import collections
import json
import os
import re
import shutil
import subprocess
import sys

from .common import REPO, VERIF, new_dir, rm_dir

SCENARIO = r'''
import io, json, os, sys
sys.path.insert(0, sys.argv[3])
sys.path.insert(1, sys.argv[4])
folder, mode = sys.argv[1], sys.argv[2]
from disk_objectstore import Container
from disk_objectstore.utils import CompressMode

def scenario():
    c = Container(folder)
    c.init_container(pack_size_target=3000, loose_prefix_len=2)
    k0 = c.add_object(b'a' * 100)
    c.add_streamed_object(io.BytesIO(b'b' * 20000))
    keys = c.add_objects_to_pack([b'c' * 500, bytes(range(256)) * 300], compress=True)
    c.add_objects_to_pack([b'c' * 500, b'e' * 10], no_holes=True, no_holes_read_twice=False)
    c.add_objects_to_pack([b'c' * 500, b'g' * 10], no_holes=True, no_holes_read_twice=True)
    c.pack_all_loose(compress=CompressMode.AUTO, clean_loose_per_pack=True)
    c.add_object(b'f' * 300)
    c.add_object(b'a' * 100)
    c.pack_all_loose()
    c.clean_storage()
    with c.get_object_stream(keys[1]) as stream:
        stream.seek(-3, 2)
        stream.read()
    c.clean_storage(vacuum=True)
    c.delete_objects([k0])
    c.repack(CompressMode.YES)
    other = Container(folder + '-other')
    other.init_container(hash_type='sha1')
    other.add_object(b'zz')
    c.import_objects(list(other.list_all_objects()), other, target_memory_bytes=1)
    c.validate()
    c.close()
    other.close()

if mode == 'shim':
    from vlib.shim import Shim, Tracer
    tracer = Tracer()
    shim = Shim(folder, tracer)
    tracer.root = shim.root
    shim.install()
    shim.activate('main')
    scenario()
    shim.deactivate()
    shim.uninstall()
    json.dump(tracer.events, open(sys.argv[5], 'w'))
else:
    scenario()
'''

CALLS = 'openat,open,creat,rename,renameat,renameat2,unlink,unlinkat,link,linkat,mkdir,mkdirat,rmdir,fsync,fdatasync,ftruncate,truncate,write,pwrite64,sendfile,copy_file_range'
HEX = re.compile(r'[0-9a-f]{32}')


def _norm(path, root):
    rel = path[len(root) :] if path.startswith(root) else path
    return HEX.sub('*', rel) if rel.startswith(('sandbox/', 'duplicates/')) else rel


def _sqlite(rel):
    return rel.startswith('packs.idx')


def parse_strace(text, root):
    """Counter of (kind, path) for state-changing calls on container paths; bytes written per path."""
    calls = collections.Counter()
    written = collections.Counter()
    for line in text.splitlines():
        line = re.sub(r'^\d+\s+', '', line)
        match = re.match(r'(\w+)\((.*)\)\s+=\s+(-?\d+|\?)', line)
        if not match:
            continue
        name, args, result = match.groups()
        paths = re.findall(r'"([^"]*)"', args)
        fdpaths = re.findall(r'\d+<([^>]*)>', args)
        if name in ('openat', 'open', 'creat'):
            if not paths or not paths[0].startswith(root):
                continue
            if name != 'creat' and not re.search(r'O_WRONLY|O_RDWR|O_CREAT|O_TRUNC|O_APPEND', args):
                continue
            rel = _norm(paths[0], root)
            if not _sqlite(rel):
                calls[('open-w', rel)] += 1
        elif name in ('rename', 'renameat', 'renameat2', 'link', 'linkat'):
            if len(paths) >= 2 and (paths[0].startswith(root) or paths[1].startswith(root)):
                kind = 'rename' if name.startswith('rename') else 'link'
                calls[(kind, _norm(paths[0], root) + ' -> ' + _norm(paths[1], root))] += 1
        elif name in ('unlink', 'unlinkat', 'mkdir', 'mkdirat', 'rmdir', 'truncate'):
            if paths and paths[0].startswith(root):
                rel = _norm(paths[0], root)
                kind = {'unlink': 'unlink', 'unlinkat': 'unlink', 'mkdir': 'mkdir', 'mkdirat': 'mkdir', 'rmdir': 'rmdir', 'truncate': 'truncate'}[name]
                if 'AT_REMOVEDIR' in args:
                    kind = 'rmdir'
                if not _sqlite(rel):
                    calls[(kind, rel)] += 1
        elif name in ('fsync', 'fdatasync', 'ftruncate'):
            # (a sync of the container folder itself is left out: SQLite syncs it too when it creates its journal files)
            if fdpaths and fdpaths[0].startswith(root):
                rel = _norm(fdpaths[0], root)
                if not _sqlite(rel):
                    calls[('fsync' if name != 'ftruncate' else 'truncate', rel)] += 1
        elif name in ('write', 'pwrite64', 'sendfile', 'copy_file_range'):
            if fdpaths and fdpaths[0].startswith(root) and result not in ('?',) and int(result) > 0:
                rel = _norm(fdpaths[0], root)
                if not _sqlite(rel):
                    written[rel] += int(result)
    return calls, written


def parse_shim(events, root):
    calls = collections.Counter()
    written = collections.Counter()
    for kind, brief in events:
        parts = brief.split(' ', 1)[1] if ' ' in brief else ''
        if kind == 'write':
            path, size = parts.rsplit(' ', 1)
            written[_norm(path, '')] += int(size)
        elif kind in ('rename', 'replace', 'link'):
            left, right = parts.split(' -> ')
            calls[('rename' if kind != 'link' else 'link', _norm(left, '') + ' -> ' + _norm(right, ''))] += 1
        elif kind == 'open-w':
            calls[('open-w', _norm(parts.rsplit(' ', 1)[0], ''))] += 1
        elif kind in ('unlink', 'mkdir', 'rmdir'):
            calls[(kind, _norm(parts, ''))] += 1
        elif kind == 'truncate':
            calls[('truncate', _norm(parts.rsplit(' ', 1)[0], ''))] += 1
        elif kind == 'fsync':
            calls[('fsync', _norm(parts.rsplit(' ', 1)[0], '').rstrip('/'))] += 1
    return calls, written


def run():
    """Returns {'status': 'ok' | 'unavailable' | 'mismatch', ...}."""
    if shutil.which('strace') is None:
        return {'status': 'unavailable', 'why': 'no strace'}
    root = new_dir('strace')
    try:
        script = os.path.join(root, 'scenario.py')
        with open(script, 'w', encoding='utf8') as fhandle:
            fhandle.write(SCENARIO)
        env = dict(os.environ, PYTHONHASHSEED='0')
        dir_a = os.path.join(root, 'a', 'c')
        dir_b = os.path.join(root, 'b', 'c')
        os.makedirs(os.path.dirname(dir_a))
        os.makedirs(os.path.dirname(dir_b))
        trace_file = os.path.join(root, 'strace.txt')
        res = subprocess.run(
            ['strace', '-f', '-y', '-qq', '-s', '0', '-e', f'trace={CALLS}', '-o', trace_file, sys.executable, script, dir_a, 'plain', REPO, VERIF],
            capture_output=True, text=True, env=env, check=False,
        )
        if res.returncode != 0 or not os.path.exists(trace_file):
            return {'status': 'unavailable', 'why': (res.stderr or '')[-300:]}
        events_file = os.path.join(root, 'events.json')
        res = subprocess.run([sys.executable, script, dir_b, 'shim', REPO, VERIF, events_file], capture_output=True, text=True, env=env, check=False)
        if res.returncode != 0:
            return {'status': 'error', 'why': (res.stderr or '')[-600:]}
        with open(trace_file, encoding='utf8', errors='replace') as fhandle:
            calls_a, written_a = parse_strace(fhandle.read(), os.path.realpath(dir_a) + '/')
        with open(events_file, encoding='utf8') as fhandle:
            calls_b, written_b = parse_shim(json.load(fhandle), os.path.realpath(dir_b) + '/')
        missing = {f'{k[0]} {k[1]}': v - calls_b.get(k, 0) for k, v in calls_a.items() if v > calls_b.get(k, 0)}
        missing_bytes = {k: v - written_b.get(k, 0) for k, v in written_a.items() if v != written_b.get(k, 0)}
        status = 'ok' if not missing and not missing_bytes else 'mismatch'
        return {'status': status, 'syscalls': sum(calls_a.values()), 'bytes': sum(written_a.values()), 'unseen_calls': missing, 'unseen_bytes': missing_bytes}
    finally:
        rm_dir(root)
