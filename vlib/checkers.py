"""Per-property oracles observing every step of a history (see DESIGN.md section 3)."""

from __future__ import annotations

import gc
import os
import shutil
import sqlite3
import zlib

from .common import absent_key, digest, short
from .interp import Checker
from .rawread import RawState, check_consistency


class ViewsChecker(Checker):
    """C02: every view equals the dict model."""

    def after(self, world, rop, result):
        from disk_objectstore.container import ObjectType  # pylint: disable=import-outside-toplevel
        from disk_objectstore.exceptions import NotExistent  # pylint: disable=import-outside-toplevel

        cont = world.c
        model = world.model
        keys = sorted(model)
        absent = [absent_key(world.hash_type, i) for i in range(2)] + [k for k in world.deleted if k not in model]
        query = keys + absent
        # existence
        got = cont.has_objects(query)
        want = [True] * len(keys) + [False] * len(absent)
        if got != want:
            bad = [q[:10] for q, g, w in zip(query, got, want) if g != w]
            raise world.viol('has_objects', f'has_objects wrong for {bad} (want present={len(keys)} absent={len(absent)})')
        # the answer is positional: one entry per requested position, also when a key is requested more than once
        repeated = keys[:2] + absent[:1] + keys[:1] + absent[:1] + keys[-1:]
        got = cont.has_objects(repeated)
        want = [k in model for k in repeated]
        if got != want:
            raise world.viol('has_objects-repeated', f'has_objects({[k[:6] for k in repeated]}) = {got}, expected {want}')
        # single reads
        for key in keys:
            try:
                data = cont.get_object_content(key)
            except NotExistent as exc:
                raise world.viol('get-missing', f'get_object_content({key[:10]}) raised NotExistent for a stored key') from exc
            if data != model[key]:
                raise world.viol('get-wrong-bytes', f'get_object_content({key[:10]}) = {short(data)} expected {short(model[key])}')
        for key in absent:
            try:
                data = cont.get_object_content(key)
            except NotExistent:
                continue
            raise world.viol('get-resurrected', f'get_object_content({key[:10]}) returned {short(data)} for an absent key')
        # bulk reads
        bulk = cont.get_objects_content(query, skip_if_missing=True)
        if bulk != {k: model[k] for k in keys}:
            raise world.viol('bulk-skip', f'get_objects_content(skip) keys {sorted(k[:8] for k in bulk)} vs model {[k[:8] for k in keys]}')
        bulk = cont.get_objects_content(query, skip_if_missing=False)
        want_bulk = {k: model[k] for k in keys}
        want_bulk.update({k: None for k in absent})
        if bulk != want_bulk:
            raise world.viol('bulk-noskip', 'get_objects_content(skip_if_missing=False) differs from the model')
        # metadata
        metas = list(cont.get_objects_meta(query, skip_if_missing=False))
        if sorted(k for k, _ in metas) != sorted(set(query)):
            raise world.viol('meta-keys', 'get_objects_meta does not report each distinct key exactly once')
        for key, meta in metas:
            if key in model:
                if meta.type == ObjectType.MISSING:
                    raise world.viol('meta-missing', f'get_objects_meta reports {key[:10]} MISSING')
                if meta.size != len(model[key]):
                    raise world.viol('meta-size', f'get_objects_meta size {meta.size} for {key[:10]}, content has {len(model[key])}')
            elif meta.type != ObjectType.MISSING:
                raise world.viol('meta-resurrected', f'get_objects_meta reports absent {key[:10]} as {meta.type}')
        # listing
        listing = list(cont.list_all_objects())
        if len(listing) != len(set(listing)):
            raise world.viol('list-dup', 'list_all_objects yields a key twice')
        if set(listing) != set(keys):
            raise world.viol(
                'list-set',
                f'list_all_objects: missing {[k[:8] for k in set(keys) - set(listing)]} extra {[k[:8] for k in set(listing) - set(keys)]}',
            )
        # counts (against the raw reader)
        raw = RawState(world.path)
        count = cont.count_objects()
        packed_keys = {r.hashkey for r in raw.rows}
        if count.packed != len(raw.rows):
            raise world.viol('count-packed', f'count_objects.packed={count.packed}, index rows={len(raw.rows)}')
        if count.loose != len(raw.loose_paths):
            raise world.viol('count-loose', f'count_objects.loose={count.loose}, loose files={len(raw.loose_paths)}')
        npacks = len([n for n in raw.pack_names if n.isdigit()])
        if count.pack_files != npacks:
            raise world.viol('count-packs', f'count_objects.pack_files={count.pack_files}, pack files={npacks}')
        if len(packed_keys | set(raw.loose_paths)) != len(model):
            raise world.viol('count-distinct', f'{len(packed_keys | set(raw.loose_paths))} distinct stored keys, model has {len(model)}')


class RawChecker(Checker):
    """C03: index and packs mutually consistent and self-describing (raw reader only)."""

    def after(self, world, rop, result):
        raw = RawState(world.path)
        problems = check_consistency(raw)
        if problems:
            sig, msg = problems[0]
            raise world.viol(f'raw:{sig}', f'{msg} (+{len(problems) - 1} more)')
        # documented recovery recipe, literally, for every model key
        conn = sqlite3.connect(os.path.join(world.path, 'packs.idx'))
        try:
            for key, data in world.model.items():
                res = conn.execute(
                    'SELECT offset, length, pack_id, compressed FROM db_object WHERE hashkey = ?', (key,)
                ).fetchall()
                if res:
                    offset, length, pack_id, compressed = res[0]
                    with open(os.path.join(world.path, 'packs', str(pack_id)), 'rb') as fhandle:
                        fhandle.seek(offset)
                        stored = fhandle.read(length)
                    got = zlib.decompress(stored) if compressed else stored
                elif key in raw.loose_paths:
                    got = raw.loose_bytes(key)
                else:
                    raise world.viol('recipe-missing', f'{key[:10]} neither indexed nor loose')
                if got != data:
                    raise world.viol('recipe-wrong-bytes', f'manual recovery of {key[:10]} gives {short(got)} expected {short(data)}')
        finally:
            conn.close()
        if len(raw.pack_names) >= 2:
            world.flags.add('multi-pack')
        if any(r.compressed for r in raw.rows):
            world.flags.add('compressed-row')
        if {r.hashkey for r in raw.rows} & set(raw.loose_paths):
            world.flags.add('loose-and-packed')


def _unreferenced(raw: RawState):
    used = {}
    for row in raw.rows:
        used[str(row.pack_id)] = used.get(str(row.pack_id), 0) + row.length
    return {name: raw.pack_sizes[name] - used.get(name, 0) for name in raw.pack_names}


class DedupChecker(Checker):
    """C09: no second copy; no_holes leaves no unreferenced bytes and does not grow packs for known content."""

    def before(self, world, rop):
        self._before = RawState(world.path)

    def after(self, world, rop, result):
        raw = RawState(world.path)
        by_key = raw.rows_by_key()
        for key, rows in by_key.items():
            if len(rows) > 1:
                raise world.viol('dedup:two-rows', f'{key[:10]} has {len(rows)} index rows')
        stored = set(by_key) | set(raw.loose_paths)
        if len(stored) != len(world.model):
            raise world.viol('dedup:count', f'{len(stored)} stored objects for {len(world.model)} distinct contents')
        count = world.c.count_objects()
        if count.packed + count.loose - len(set(by_key) & set(raw.loose_paths)) != len(world.model):
            raise world.viol('dedup:count_objects', f'count_objects {count} inconsistent with {len(world.model)} distinct contents')
        if rop.get('op') in ('addpack', 'addpack_off') and rop['no_holes']:
            before = self._before
            unref_before = _unreferenced(before)
            unref_after = _unreferenced(raw)
            for name, value in unref_after.items():
                if value > unref_before.get(name, 0):
                    raise world.viol(
                        'dedup:no_holes-unreferenced',
                        f'no_holes call (read_twice={rop["read_twice"]}) left {value} unreferenced bytes in pack {name} '
                        f'(before: {unref_before.get(name, 0)})',
                    )
            known = {r.hashkey for r in before.rows}
            new_len = sum(r.length for r in raw.rows if r.hashkey not in known)
            growth = sum(raw.pack_sizes.values()) - sum(before.pack_sizes.values())
            if growth != new_len:
                raise world.viol(
                    'dedup:no_holes-growth',
                    f'no_holes call (read_twice={rop["read_twice"]}) grew packs by {growth} bytes, new objects occupy {new_len}',
                )
            # the order that defeats "sizes coincide": a repeat of packed content followed by a new content
            seen_known = False
            for key in rop.get('keys', []):
                if key in known:
                    seen_known = True
                elif seen_known:
                    world.flags.add('repeat-then-new')
                known = known | {key}
        # every key still reads correctly (a second copy at a wrong offset shows up here)
        for key, data in world.model.items():
            got = world.c.get_object_content(key)
            if got != data:
                raise world.viol('dedup:wrong-bytes', f'{key[:10]} reads {short(got)} expected {short(data)}')


class CompressionChecker(Checker):
    """C10: transparency + requested mode honoured + size/length/total bookkeeping."""

    def before(self, world, rop):
        self._before = RawState(world.path)

    def after(self, world, rop, result):
        raw = RawState(world.path)
        before = getattr(self, '_before', None)
        op = rop.get('op')
        rows = {r.hashkey: r for r in raw.rows}
        # transparency
        for key, data in world.model.items():
            got = world.c.get_object_content(key)
            if got != data:
                raise world.viol('compr:wrong-bytes', f'after {op}: {key[:10]} reads {short(got)} expected {short(data)}')
        # bookkeeping of every row
        for row in raw.rows:
            data = world.model.get(row.hashkey)
            if data is None:
                continue
            if row.size != len(data):
                raise world.viol('compr:size', f'{row.hashkey[:10]} size {row.size} != content length {len(data)}')
            content, problem = raw.row_content(row)
            if problem:
                raise world.viol('compr:length', f'after {op}: {problem}')
            if content != data:
                raise world.viol('compr:stored-bytes', f'{row.hashkey[:10]} stored range decodes to {short(content)}')
            if not row.compressed and row.length != row.size:
                raise world.viol('compr:plain-length', f'{row.hashkey[:10]} plain but length {row.length} != size {row.size}')
        # requested mode
        if before is not None and op in ('pack', 'repack', 'repack_pack'):
            brow = {r.hashkey: r for r in before.rows}
            mode = rop['mode']
            if op == 'pack':
                affected = [k for k in rows if k not in brow]
                expect = {True: 1, 'YES': 1, False: 0, 'NO': 0, 'KEEP': 0, 'AUTO': None}[mode]
                prev = {}
            else:
                if op == 'repack':
                    affected = [k for k in brow if k in rows]
                else:
                    affected = [k for k, r in brow.items() if str(r.pack_id) == str(rop['pack']) and k in rows]
                expect = {'YES': 1, 'NO': 0, 'KEEP': 'prev', 'AUTO': None}[mode]
                prev = {k: brow[k].compressed for k in affected}
                if set(brow) != set(rows):
                    raise world.viol('compr:keys-changed', f'{op} changed the set of indexed keys')
                untouched = [k for k in brow if k not in affected]
                for key in untouched:
                    if (brow[key].compressed, brow[key].length, brow[key].pack_id) != (
                        rows[key].compressed,
                        rows[key].length,
                        rows[key].pack_id,
                    ):
                        raise world.viol('compr:untouched-changed', f'{op} changed row of {key[:10]} in another pack')
            for key in affected:
                flag = int(bool(rows[key].compressed))
                want = prev[key] if expect == 'prev' else expect
                if want is not None and flag != int(bool(want)):
                    raise world.viol(
                        f'compr:mode-{mode}', f'{op}({mode}) left {key[:10]} compressed={flag}, expected {int(bool(want))}'
                    )
                if any(r.compressed for r in before.rows if r.hashkey == key) and op != 'pack':
                    world.flags.add('mode-change-on-compressed')
                if mode == 'AUTO' and rows[key].size > 131072:
                    world.flags.add('auto-large')
            world.stats[f'mode:{op}:{mode}'] = world.stats.get(f'mode:{op}:{mode}', 0) + 1
        # totals
        total = world.c.get_total_size()
        want_total = {
            'total_size_packed': sum(r.size for r in raw.rows),
            'total_size_packed_on_disk': sum(r.length for r in raw.rows),
            'total_size_packfiles_on_disk': sum(raw.pack_sizes[n] for n in raw.pack_names if n.isdigit()),
            'total_size_loose': sum(os.path.getsize(p) for p in raw.loose_paths.values()),
        }
        for name, value in want_total.items():
            if total[name] != value:
                raise world.viol(f'compr:total:{name}', f'get_total_size().{name}={total[name]}, raw sum={value}')
        # per-object metadata equals the raw row
        for key in world.model:
            meta = world.c.get_object_meta(key)
            if key in rows:
                row = rows[key]
                got = (meta.type.value, meta.size, meta.pack_id, bool(meta.pack_compressed), meta.pack_offset, meta.pack_length)
                want = ('packed', row.size, row.pack_id, bool(row.compressed), row.offset, row.length)
                if got != want:
                    raise world.viol('compr:meta', f'get_object_meta({key[:10]})={got} raw row={want}')
            elif meta.type.value != 'loose' or meta.size != len(world.model[key]):
                raise world.viol('compr:meta-loose', f'get_object_meta({key[:10]})={meta}')


class DeleteChecker(Checker):
    """C11: deletion removes exactly the requested objects; full repack reclaims their space."""

    def __init__(self):
        self.ever_deleted = {}  # key -> bytes

    def before(self, world, rop):
        self._model_before = dict(world.model)
        if rop.get('op') == 'delete':
            raw = RawState(world.path)
            rows = {r.hashkey: r for r in raw.rows}
            for key in rop['expected']:
                if key in rows:
                    mine = rows[key]
                    if any(r.pack_id == mine.pack_id and r.offset > mine.offset for r in raw.rows):
                        world.flags.add('deleted-packed-not-last')

    def after(self, world, rop, result):
        op = rop.get('op')
        raw = RawState(world.path)
        if op == 'delete':
            if not isinstance(result, list):
                raise world.viol('delete:return-type', f'delete_objects returned {result!r}')
            # `result` is sorted(list(ret)): duplicates show up as repeated neighbours
            if len(result) != len(set(result)):
                raise world.viol('delete:return-dup', f'delete_objects returned a key twice: {[k[:8] for k in result]}')
            if sorted(set(result)) != rop['expected']:
                raise world.viol(
                    'delete:return-set',
                    f'delete_objects({[k[:8] for k in rop["keys"]]}) returned {[k[:8] for k in result]}, '
                    f'existing requested keys were {[k[:8] for k in rop["expected"]]}',
                )
            for key in rop['expected']:
                self.ever_deleted[key] = self._model_before[key]
                if key in raw.keys():
                    raise world.viol('delete:still-on-disk', f'deleted key {key[:10]} still indexed or loose')
                dups = [n for n in os.listdir(os.path.join(world.path, 'duplicates')) if n.startswith(key + '.')]
                if dups:
                    raise world.viol('delete:dup-left', f'deleted key {key[:10]} still has stray duplicates {dups}')
        for key in list(self.ever_deleted):
            if key in world.model:
                del self.ever_deleted[key]  # re-added later
        # all other objects unchanged, deleted ones absent from every view
        cont = world.c
        keys = sorted(world.model)
        gone = [k for k in self.ever_deleted]
        has = cont.has_objects(keys + gone)
        if has != [True] * len(keys) + [False] * len(gone):
            raise world.viol('delete:has', f'after {op}: has_objects={has} for {len(keys)} live + {len(gone)} deleted keys')
        bulk = cont.get_objects_content(keys + gone, skip_if_missing=False)
        for key in keys:
            if bulk.get(key) != world.model[key]:
                raise world.viol('delete:other-changed', f'after {op}: live {key[:10]} reads {short(bulk.get(key) or b"")}')
        for key in gone:
            if bulk.get(key) is not None:
                raise world.viol('delete:resurrected', f'after {op}: deleted {key[:10]} readable again')
        listing = set(cont.list_all_objects())
        if listing != set(keys):
            raise world.viol('delete:listing', f'after {op}: listing differs from live keys')
        if op == 'repack':
            self._check_compact(world, raw)

    def _check_compact(self, world, raw):
        per_pack = {}
        for row in raw.rows:
            per_pack.setdefault(str(row.pack_id), []).append(row)
        for name in raw.pack_names:
            if name not in per_pack:
                raise world.viol('repack:empty-pack-kept', f'pack file {name} has no live object after a full repack')
        for name, rows in per_pack.items():
            rows.sort(key=lambda r: r.offset)
            data = raw.pack_bytes(name)
            pos = 0
            for row in rows:
                if row.offset != pos:
                    raise world.viol('repack:gap', f'pack {name}: row at {row.offset}, expected contiguous at {pos}')
                pos += row.length
            if pos != len(data):
                raise world.viol('repack:tail', f'pack {name}: {len(data) - pos} unreferenced bytes at the tail after full repack')
        # bytes of deleted objects must be gone (meaningful only for sufficiently unique contents)
        for key, data in self.ever_deleted.items():
            if len(data) < 16 or len(set(data)) < 8:
                continue
            needles = [data]
            for name in raw.pack_names:
                blob = raw.pack_bytes(name)
                for needle in needles:
                    if needle in blob:
                        raise world.viol('repack:deleted-bytes-left', f'bytes of deleted {key[:10]} still in pack {name} after full repack')
        if 'deleted-packed-not-last' in world.flags:
            world.flags.add('repack-after-inner-delete')
        # a deleted key's space was reclaimed; forget it (its bytes may legitimately come back with a re-add)
        self.ever_deleted_checked = True


class ValidateChecker(Checker):
    """C12: validate() clean on every reachable state; never clean on an effectively damaged copy."""

    def __init__(self, probes=None):
        self.probes = probes or []  # list of integers driving damage probes, consumed one per step
        self.probe_stats = {}

    def after(self, world, rop, result):
        if world.step % 3 == 2:
            from .interp import RecordingCallback  # pylint: disable=import-outside-toplevel

            res = world.c.validate(callback=RecordingCallback())  # the verdict must not depend on progress reporting
        else:
            res = world.c.validate()
        if not res.is_valid():
            raise world.viol('validate:false-positive', f'validate() on a reachable state reports {res}')
        if self.probes and world.model:
            probe = self.probes.pop(0)
            self.probe(world, probe)

    def probe(self, world, probe):
        from . import damage  # pylint: disable=import-outside-toplevel

        copy = os.path.join(world.root, 'probe')
        shutil.rmtree(copy, ignore_errors=True)
        # close so that the WAL is checkpointed into packs.idx and the copy is self-contained
        world.c.close()
        shutil.copytree(world.path, copy)
        try:
            desc = damage.apply_damage(copy, probe)
            if desc is None:
                return
            verdict = damage.judge(copy, world.model, world.Container)
            cls = desc['class']
            self.probe_stats[cls] = self.probe_stats.get(cls, 0) + 1
            if verdict['effective']:
                self.probe_stats[cls + ':effective'] = self.probe_stats.get(cls + ':effective', 0) + 1
                world.flags.add('effective:' + cls)
                if verdict['validate_clean']:
                    raise world.viol(
                        f'validate:false-negative:{cls}',
                        f'damage {desc} makes {verdict["why"]} but validate() returned a clean report',
                    )
        finally:
            shutil.rmtree(copy, ignore_errors=True)


class AppendOnlyChecker(Checker):
    """C13: referenced pack bytes never change, packs never shrink below the last referenced byte, ids consecutive,
    every pack but the highest reached the target and is never written again."""

    def before(self, world, rop):
        self._before = RawState(world.path)
        self._before_bytes = {n: self._before.pack_bytes(n) for n in self._before.pack_names}

    def on_exception(self, world, rop, exc):
        # C13 speaks about pack bytes only: an operation that raises must still leave the invariants intact
        self.after(world, rop, None)
        world.flags.add('op-raised')
        world.stats['raised:' + type(exc).__name__] = world.stats.get('raised:' + type(exc).__name__, 0) + 1
        # the handle may hold a failed transaction: replace it, as a caller would
        try:
            world.c.close()
        except Exception:  # pylint: disable=broad-except
            pass
        stale = os.path.join(world.path, 'packs')
        for name in os.listdir(stale):
            if name.endswith('.lock'):
                os.remove(os.path.join(stale, name))
        world.handles[world.cur] = world.Container(world.path)
        return True

    def after(self, world, rop, result):
        if rop.get('op') == 'init':
            return
        raw = RawState(world.path)
        before = self._before
        target = world.cfg['pack_size_target']
        for row in before.rows:
            name = str(row.pack_id)
            if name not in raw.pack_sizes:
                raise world.viol('append:pack-removed', f'pack {name} referenced by {row.hashkey[:10]} disappeared')
            old = self._before_bytes[name][row.offset : row.offset + row.length]
            new = raw.pack_bytes(name)[row.offset : row.offset + row.length]
            if old != new:
                raise world.viol('append:referenced-bytes-changed', f'{rop.get("op")} changed referenced bytes of {row.hashkey[:10]} in pack {name}')
        for row in raw.rows:
            name = str(row.pack_id)
            if raw.pack_sizes.get(name, -1) < row.offset + row.length:
                raise world.viol('append:shrunk', f'pack {name} has {raw.pack_sizes.get(name)} bytes, {row.hashkey[:10]} ends at {row.offset + row.length}')
        ids = sorted(int(n) for n in raw.pack_names)
        if ids != list(range(len(ids))):
            raise world.viol('append:ids', f'pack ids {ids} are not consecutive from zero')
        for pid in ids[:-1]:
            name = str(pid)
            if raw.pack_sizes[name] < target:
                raise world.viol('append:not-full', f'pack {name} has {raw.pack_sizes[name]} < target {target} but pack {ids[-1]} exists')
        old_ids = sorted(int(n) for n in before.pack_names)
        for pid in old_ids[:-1]:
            name = str(pid)
            if self._before_bytes[name] != raw.pack_bytes(name):
                raise world.viol('append:old-pack-written', f'{rop.get("op")} wrote to pack {name} although pack {old_ids[-1]} existed')
        for name in before.pack_names:
            # a pack only ever grows at its end: the old file is a prefix of the new one up to the last referenced byte
            last_ref = max([r.offset + r.length for r in before.rows if str(r.pack_id) == name] or [0])
            if raw.pack_bytes(name)[:last_ref] != self._before_bytes[name][:last_ref]:
                raise world.viol('append:prefix-changed', f'{rop.get("op")} rewrote pack {name} below its last referenced byte')
        if len(ids) >= 3:
            world.flags.add('three-packs')


def container_fds(folder):
    out = []
    for name in os.listdir('/proc/self/fd'):
        try:
            target = os.readlink(f'/proc/self/fd/{name}')
        except OSError:
            continue
        if target.startswith(folder):
            out.append((int(name), target[len(folder) :]))
    return out


class FdChecker(Checker):
    """C18(a): no descriptor inside the container except the index files of live sessions; none after close."""

    def __init__(self):
        self.max_seen = 0
        # a descriptor that is only closed when the cyclic garbage collector happens to run is a leak: the census must not
        # depend on when that is, so the collector is off for the duration of a case (reference counting still frees at once)
        gc.collect()
        gc.disable()

    def after(self, world, rop, result):
        fds = container_fds(world.root)
        bad = [t for _, t in fds if not t.split('/')[-1].startswith('packs.idx')]
        if bad:
            raise world.viol('fd:leak', f'after {rop.get("op")}: open descriptors inside the container: {sorted(bad)}')
        idx = len(fds)
        self.max_seen = max(self.max_seen, idx)
        # a handle has at most two sessions, each with packs.idx (+ -wal, -shm)
        limit = 6 * (len(world.handles) + 1)
        if idx > limit:
            raise world.viol('fd:accumulate', f'after {rop.get("op")}: {idx} index descriptors open (limit {limit}): {sorted(t for _, t in fds)}')

    def final(self, world):
        try:
            world.close()
            fds = container_fds(world.root)
            if fds:
                raise world.viol('fd:after-close', f'after close(): descriptors still open: {sorted(t for _, t in fds)}')
        finally:
            gc.enable()
