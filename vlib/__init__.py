"""Shared machinery of the disk-objectstore property checks (see /verif/DESIGN.md section 2)."""
