"""Deterministic baton scheduler: actors are threads, exactly one runs at a time, the baton changes hands only at shim
events (file-system calls / SQL statements of the library) according to a generated schedule of (actor choice, run length)
pairs. One run is a pure function of (code, scenario, schedule)."""

from __future__ import annotations

import threading
import time
import traceback

from .common import HarnessError
from .shim import Consumer

INF = 10**9


class Actor:
    def __init__(self, name, func):
        self.name = name
        self.func = func
        self.done = False
        self.error = None
        self.error_tb = None
        self.events = 0
        self.thread = None


class Scheduler(Consumer):
    """The consumer of the shim for multi-actor scenarios."""

    def __init__(self, schedule, watchdog=30.0):
        self.schedule = [(c if isinstance(c, str) else int(c), int(r)) for c, r in schedule]
        self.actors = {}
        self.order = []
        self.trace = []  # (actor, kind, brief)
        self.cond = threading.Condition()
        self.current = None
        self.remaining = 0
        self.watchdog = watchdog
        self.shim = None
        self.root = ''
        self.switches = 0
        self.until_boundary = False

    def add_actor(self, name, func):
        actor = Actor(name, func)
        self.actors[name] = actor
        self.order.append(actor)
        return actor

    # ------------------------------------------------------------------ consumer side (runs in actor threads)
    def before(self, event):
        actor = self.actors.get(event.actor)
        if actor is None:
            return
        self.trace.append((actor.name, event.kind, event.brief(self.root)))
        actor.events += 1
        self.remaining -= 1
        if self.remaining <= 0:
            self._yield(actor)

    def yield_point(self, actor, label):
        """Explicit yield point for actors whose interesting steps are not shim events (e.g. rsync sub-processes)."""
        self.trace.append((actor.name, 'phase', label))
        actor.events += 1
        self.remaining -= 1
        if self.remaining <= 0:
            self._yield(actor)

    def boundary(self, actor):
        """Actors call this between two of their operations: a slice granted with run length -1 ends here."""
        if self.until_boundary:
            self.until_boundary = False
            self._yield(actor)

    def mark(self, actor_name, kind, detail=''):
        """Actors annotate the trace (operation boundaries); not a yield point."""
        self.trace.append((actor_name, kind, detail))

    def _yield(self, actor):
        with self.cond:
            self.current = None
            self.cond.notify_all()
            while self.current != actor.name:
                self.cond.wait()

    # ------------------------------------------------------------------ thread bodies
    def _body(self, actor):
        self.shim.activate(actor.name)
        with self.cond:
            while self.current != actor.name:
                self.cond.wait()
        try:
            actor.func(actor)
        except BaseException as exc:  # pylint: disable=broad-except
            actor.error = exc
            actor.error_tb = traceback.format_exc()
        finally:
            self.shim.deactivate()
            with self.cond:
                actor.done = True
                self.current = None
                self.cond.notify_all()

    # ------------------------------------------------------------------ main thread
    def run(self, shim):
        self.shim = shim
        self.root = shim.root
        for actor in self.order:
            actor.thread = threading.Thread(target=self._body, args=(actor,), daemon=True, name=f'actor-{actor.name}')
            actor.thread.start()
        index = 0
        rr = 0
        while True:
            alive = [a for a in self.order if not a.done]
            if not alive:
                break
            if index < len(self.schedule):
                choice, run = self.schedule[index]
                index += 1
                if isinstance(choice, str):  # role prefix, e.g. 'backup', 'w', 'r', 'packer'
                    named = [a for a in alive if a.name.startswith(choice)]
                    actor = named[run % len(named)] if named else alive[run % len(alive)]
                else:
                    actor = alive[choice % len(alive)]
            else:
                actor = alive[rr % len(alive)]
                rr += 1
                run = INF
            self.switches += 1
            with self.cond:
                # run length -1: until the actor reaches its next operation boundary (or finishes)
                self.until_boundary = run == -1
                self.remaining = INF if run == -1 else max(run, 1)
                self.current = actor.name
                self.cond.notify_all()
                deadline = time.time() + self.watchdog
                while self.current is not None:
                    left = deadline - time.time()
                    if left <= 0:
                        raise HarnessError(f'scheduler stall: actor {actor.name} did not yield within {self.watchdog}s; last events {self.trace[-5:]}')
                    self.cond.wait(left)
        for actor in self.order:
            actor.thread.join(5)
