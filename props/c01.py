"""C01 - content-addressed round trip on every write path."""

import io
import itertools
import os
import uuid

from hypothesis import strategies as st

from vlib import gen
from vlib.common import Violation, config_kwargs, content_of, digest, new_dir, rm_dir, short
from vlib.runner import explore

PROP = 'C01'
LEVEL = 'exploration'
RULE = (
    '@given(configuration, content descriptor (7 content classes, boundary-biased sizes 0..1 MiB straddling the 64 KiB / '
    '128 KiB / 256 KiB / 512 KiB internal chunk sizes), write path (add_object; add_streamed_object from BytesIO / real file / '
    'short-read stream; add_objects_to_pack; add_streamed_object_to_pack; add_streamed_objects_to_pack from BytesIO, '
    'LazyOpener+open_streams or short-read streams) x compress x no_holes x no_holes_read_twice, position inside a generated batch (with '
    'duplicates of itself), optional pack_all_loose(mode)/repack(mode) afterwards, read chunk size). Oracle: returned key == '
    'hashlib digest; get_object_content, get_objects_content (bulk among other keys), get_object_stream read in chunks, '
    'get_objects_stream_and_meta all return exactly the bytes; meta.size == len. Thorough adds the full product of 16 '
    'boundary sizes x 3 classes x 10 write paths x 2 hashes x levels {1,5,9} x compress. Non-trivial = size >= 65536, or '
    'stored compressed, or written inside a batch; distinct by (hash, prefix, level, pack target, write path, flags, size, '
    'class, post-op, chunk size).'
)
ASSUMPTIONS = ['object sizes up to about 1 MiB here (tens of MiB are visited by C18)', 'hashlib and zlib are trusted']

WRITE_PATHS = ('add_object', 'streamed_bytesio', 'streamed_file', 'streamed_short', 'objects_to_pack', 'streamed_object_to_pack',
               'streamed_objects_to_pack', 'lazyopener_to_pack', 'short_stream_to_pack', 'short_streams_to_pack')
CHUNKS = (1, 7, 4096, 65536, 70000, 524288, -1)
POST = ('none', 'none', 'pack:NO', 'pack:YES', 'pack:AUTO', 'pack:YES+repack:NO', 'pack:NO+repack:YES', 'pack:AUTO+repack:AUTO')


def strategy():
    return st.fixed_dictionaries(
        {
            'cfg': gen.config(),
            'content': gen.content_desc(1048577, boundary_weight=3),
            'path': st.sampled_from(WRITE_PATHS),
            'flags': st.integers(0, 7),
            'others': st.lists(gen.content_desc(70000, 1), max_size=3),
            'pos': st.integers(0, 3),
            'dups': st.integers(0, 2),
            'chunk': st.sampled_from(CHUNKS),
            'post': st.sampled_from(POST),
            'short_step': st.integers(1, 70000),
            # internal tuning constants (pack copy chunk, decompresser read chunk): the round trip must not depend on them
            'copy_chunk': st.sampled_from([None, None, None, 1000, 4097, 65535, 65537]),
            'dchunk': st.sampled_from([None, None, None, 1000, 4097, 524287]),
        }
    )


def run_case(case):  # pylint: disable=too-many-locals,too-many-branches,too-many-statements
    from pathlib import Path

    from disk_objectstore import Container
    from disk_objectstore.utils import CompressMode, LazyOpener

    from vlib.interp import ShortReadStream

    cfg = case['cfg']
    hash_type = cfg['hash_type']
    data = content_of(case['content'])
    want_key = digest(hash_type, data)
    from disk_objectstore import utils as _utils

    if case.get('copy_chunk'):
        class Container(Container):  # pylint: disable=function-redefined,too-few-public-methods
            _CHUNKSIZE = case['copy_chunk']

    root = new_dir('c01')
    cont = Container(os.path.join(root, 'c'))
    saved_dchunk = _utils.ZlibLikeBaseStreamDecompresser._CHUNKSIZE  # pylint: disable=protected-access
    if case.get('dchunk'):
        _utils.ZlibLikeBaseStreamDecompresser._CHUNKSIZE = case['dchunk']  # pylint: disable=protected-access
    try:
        cont.init_container(**config_kwargs(cfg))
        path = case['path']
        flags = case['flags']
        compress, no_holes, read_twice = bool(flags & 1), bool(flags & 2), bool(flags & 4)
        others = [content_of(d) for d in case['others']]
        batch = list(others)
        pos = min(case['pos'], len(batch))
        batch.insert(pos, data)
        for i in range(case['dups']):
            batch.insert((pos + 1 + i * 2) % (len(batch) + 1), data)
        in_batch = False
        stored = {}
        if path in ('add_object', 'streamed_bytesio', 'streamed_file', 'streamed_short'):
            for other in others:
                stored[cont.add_object(other)] = other
            if path == 'add_object':
                key = cont.add_object(data)
            elif path == 'streamed_bytesio':
                key = cont.add_streamed_object(io.BytesIO(data))
            elif path == 'streamed_file':
                fpath = os.path.join(root, uuid.uuid4().hex)
                with open(fpath, 'wb') as fhandle:
                    fhandle.write(data)
                with open(fpath, 'rb') as fhandle:
                    key = cont.add_streamed_object(fhandle)
            else:
                key = cont.add_streamed_object(ShortReadStream(data, case['short_step']))
            keys = [key]
        else:
            kwargs = {'compress': compress, 'no_holes': no_holes, 'no_holes_read_twice': read_twice}
            if path == 'objects_to_pack':
                keys = cont.add_objects_to_pack(batch, **kwargs)
                in_batch = len(batch) > 1
            elif path == 'streamed_object_to_pack':
                for other in others:
                    stored[cont.add_objects_to_pack([other], compress=not compress)[0]] = other
                keys = [cont.add_streamed_object_to_pack(io.BytesIO(data), **kwargs)]
                batch = [data]
            elif path == 'streamed_objects_to_pack':
                keys = cont.add_streamed_objects_to_pack([io.BytesIO(b) for b in batch], **kwargs)
                in_batch = len(batch) > 1
            elif path == 'short_stream_to_pack':
                # a stream that legitimately returns fewer bytes than asked for before its end (pipe, socket, raw stream)
                keys = [cont.add_streamed_object_to_pack(ShortReadStream(data, case['short_step']), **kwargs)]
                batch = [data]
            elif path == 'short_streams_to_pack':
                keys = cont.add_streamed_objects_to_pack([ShortReadStream(b, case['short_step'] + i) for i, b in enumerate(batch)], **kwargs)
                in_batch = len(batch) > 1
            else:
                openers = []
                for blob in batch:
                    fpath = os.path.join(root, uuid.uuid4().hex)
                    with open(fpath, 'wb') as fhandle:
                        fhandle.write(blob)
                    openers.append(LazyOpener(Path(fpath)))
                keys = cont.add_streamed_objects_to_pack(openers, open_streams=True, **kwargs)
                in_batch = len(batch) > 1
            want = [digest(hash_type, b) for b in batch]
            if list(keys) != want:
                raise Violation(PROP, f'wrong-key:{path}', f'{path}({kwargs}) returned {keys} expected {want}')
            for k, blob in zip(keys, batch):
                stored[k] = blob
            key = want_key
        if path in WRITE_PATHS[:4] and key != want_key:
            raise Violation(PROP, f'wrong-key:{path}', f'{path} of {short(data)} returned {key}, digest is {want_key}')
        stored[want_key] = data
        for step in case['post'].split('+'):
            if step.startswith('pack:'):
                cont.pack_all_loose(compress=getattr(CompressMode, step[5:]))
            elif step.startswith('repack:'):
                cont.repack(compress_mode=getattr(CompressMode, step[7:]))
        # ---- read back through every path
        got = cont.get_object_content(want_key)
        if got != data:
            raise Violation(PROP, f'read:get_object_content:{path}', f'{short(got)} != {short(data)} ({len(got)} vs {len(data)} bytes)')
        bulk = cont.get_objects_content(list(stored))
        for k, blob in stored.items():
            if bulk.get(k) != blob:
                raise Violation(PROP, f'read:get_objects_content:{path}', f'bulk read of {k[:10]} gives {short(bulk.get(k) or b"")}')
        meta = cont.get_object_meta(want_key)
        if meta.size != len(data):
            raise Violation(PROP, f'meta-size:{path}', f'meta.size={meta.size}, len={len(data)}')
        chunk = case['chunk']
        with cont.get_object_stream(want_key) as stream:
            parts = []
            guard = 0
            while True:
                part = stream.read(chunk)
                if not part:
                    break
                if chunk > 0 and len(part) > chunk:
                    raise Violation(PROP, f'read:chunk-too-long:{path}', f'read({chunk}) returned {len(part)} bytes')
                parts.append(part)
                guard += 1
                if guard > len(data) + 10:
                    raise Violation(PROP, f'read:no-eof:{path}', 'chunked read does not terminate')
        if b''.join(parts) != data:
            raise Violation(PROP, f'read:chunked:{path}', f'chunked read (chunk={chunk}) differs: {len(b"".join(parts))} vs {len(data)} bytes')
        seen = {}
        with cont.get_objects_stream_and_meta(list(stored)) as triplets:
            for k, stream, smeta in triplets:
                blob = stream.read()
                seen[k] = blob
                if smeta.size != len(stored[k]):
                    raise Violation(PROP, f'meta-size-bulk:{path}', f'bulk meta.size={smeta.size}, len={len(stored[k])}')
        if seen != stored:
            raise Violation(PROP, f'read:stream_and_meta:{path}', 'get_objects_stream_and_meta contents differ')
        if cont.has_objects(list(stored)) != [True] * len(stored):
            raise Violation(PROP, f'has:{path}', 'has_objects false for a stored key')
        # the same bulk reads through the other internal look-up strategy (ordered full scan of the index), selected here by
        # lowering the class threshold instead of asking for > 9500 keys
        class FullScan(Container):  # pylint: disable=too-few-public-methods
            _MAX_CHUNK_ITERATE_LENGTH = 0

        other = FullScan(os.path.join(root, 'c'))
        try:
            bulk = other.get_objects_content(list(stored))
            for k, blob in stored.items():
                if bulk.get(k) != blob:
                    raise Violation(PROP, f'read:get_objects_content-fullscan:{path}', f'bulk read (full-scan strategy) of {k[:10]} gives {short(bulk.get(k) or b"")} ({len(bulk.get(k) or b"")} bytes, expected {len(blob)})')
            with other.get_objects_stream_and_meta(list(stored)) as triplets:
                for k, stream, smeta in triplets:
                    if stream.read() != stored[k] or smeta.size != len(stored[k]):
                        raise Violation(PROP, f'read:stream_and_meta-fullscan:{path}', f'bulk stream (full-scan strategy) of {k[:10]} differs')
        finally:
            other.close()
        compressed = bool(meta.pack_compressed)
    finally:
        _utils.ZlibLikeBaseStreamDecompresser._CHUNKSIZE = saved_dchunk  # pylint: disable=protected-access
        cont.close()
        rm_dir(root)
    size = len(data)
    nontrivial = size >= 65536 or compressed or in_batch
    fp = [cfg, path, flags if path in WRITE_PATHS[4:] else 0, size, case['content'][0], case['post'], case['chunk'], in_batch]
    labels = [f'path:{path}', f'post:{case["post"]}', 'size>=64K' if size >= 65536 else 'size<64K', f'class:{case["content"][0]}']
    if compressed:
        labels.append('stored-compressed')
    if in_batch:
        labels.append('in-batch')
    if size >= 524288:
        labels.append('size>=512K')
    sample = {k: case[k] for k in ('cfg', 'content', 'path', 'flags', 'post', 'chunk')}
    return nontrivial, fp, sample, labels


def sweep(ctx):
    from vlib.gen import BOUNDARY_SIZES

    sizes = [s for s in BOUNDARY_SIZES if s not in (1023, 1025, 8191, 8193, 1024, 8192)]
    combos = itertools.product(sizes, ('random', 'text', 'antitrap'), WRITE_PATHS, ('sha256', 'sha1'), (1, 5, 9), (0, 1))
    for index, (size, cls, path, hash_type, level, compress) in enumerate(combos):
        if not ctx.mine(index):
            continue
        case = {
            'cfg': {'hash_type': hash_type, 'loose_prefix_len': 2, 'level': level, 'pack_size_target': 4 * 1024 ** 3},
            'content': [cls, size, 3],
            'path': path,
            'flags': compress,
            'others': [['text', 50, 1]],
            'pos': 1,
            'dups': 0,
            'chunk': 65536,
            'post': 'pack:YES' if (compress and path in WRITE_PATHS[:4]) else 'none',
            'short_step': 65537,
        }
        try:
            nontrivial, fp, sample, labels = run_case(case)
        except Violation as exc:
            ctx.stats.violations.append({'property': exc.prop, 'sig': exc.sig, 'msg': exc.msg, 'case': case, 'log': None})
            return
        ctx.stats.label('sweep')
        ctx.stats.record(nontrivial, fp, sample)


def run_shard(ctx):
    n = 170 if ctx.tier == 'quick' else 16000
    ctx.set_budget(70 if ctx.tier == 'quick' else 1100)
    explore(ctx, strategy(), run_case, n)
    if ctx.tier == 'thorough' and not ctx.stats.violations:
        sweep(ctx)


def replay(case):
    run_case(case)
