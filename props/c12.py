"""C12 - validate() is clean on every reachable state and never clean on a damaged one."""

import os
import shutil

from hypothesis import strategies as st

from vlib import damage, gen
from vlib.checkers import ValidateChecker
from vlib.common import Violation, config_kwargs, content_of, digest, new_dir, rm_dir
from vlib.interp import run_case as run_history
from vlib.runner import ddmin_ops, explore

PROP = 'C12'
LEVEL = 'exploration'
RULE = (
    '(a) every state visited by Hypothesis-generated operation histories (C02 generator incl. delete/repack/import/no_holes) '
    'must validate clean. (b) after generated steps the container is copied and ONE generated damage is applied to the copy: '
    'flip bit b of byte i of a loose file or of a referenced pack byte, truncate a loose or pack file at i, or UPDATE one of '
    'offset/length/size/compressed of one row to a neighbouring value (+-1, 0, pack size, beyond the file, another row\'s '
    'value, toggled flag). Ground truth by reading every model key through the library: the damage is EFFECTIVE iff some key '
    'is unreadable, reads different bytes, or reports a size != len; if effective, validate() must raise or return '
    'is_valid()==False; ineffective damage (e.g. a flip in deflate padding) demands nothing. (c) EXHAUSTIVE on small fixed '
    'containers (<= ~400 referenced bytes, plain + compressed + loose): every single-bit flip of every referenced byte, every '
    'truncation point, 4 fields x <= 8 perturbations x every row. Non-trivial = effective damage; distinct by (damage class, '
    'target compressed or not, history signature) for (b) and by damage descriptor for (c).'
)
ASSUMPTIONS = ['single damage per probe', 'the damaged copy is taken after all handles are closed (WAL checkpointed)']

WEIGHTS = {'add': 7, 'addpack': 8, 'pack': 5, 'clean': 2, 'repack': 2, 'delete': 2, 'loosen': 1, 'reopen': 1, 'aux_add': 1, 'import': 1, 'addfail': 1}


def strategy(tier):
    return gen.history_case(
        WEIGHTS, min_ops=2, max_ops=14 if tier == 'quick' else 30, max_size=70000, boundary_weight=1, pool_max=6,
        extra={'probes': st.lists(st.integers(0, 10**9), min_size=3, max_size=8)},
    )


def run_one(case):
    holder = {}

    def factory():
        holder['checker'] = ValidateChecker(probes=list(case.get('probes', [])))
        return [holder['checker']]

    world = run_history(case, factory, PROP)
    checker = holder['checker']
    flags = sorted(f for f in world.flags if f.startswith('effective:'))
    labels = ['history'] + [f'probe:{k}' for k, v in checker.probe_stats.items() for _ in range(v)]
    nontrivial = bool(flags)
    fp = [flags, [o['k'] for o in case['ops']], case['probes'][:3]]
    sample = {'cfg': case['cfg'], 'ops': [e.get('op') for e in world.log][:20], 'effective_damage_classes': flags,
              'probe_stats': checker.probe_stats}
    return nontrivial, fp, sample, labels


FIXTURES = (
    {'hash_type': 'sha256', 'level': 1, 'objs': [('text', 40, 1, 'plain'), ('text', 90, 2, 'z'), ('random', 33, 3, 'plain'), ('zeros', 70, 4, 'z'), ('text', 25, 5, 'loose')]},
    {'hash_type': 'sha1', 'level': 9, 'objs': [('repeat', 120, 1, 'z'), ('random', 20, 2, 'z'), ('text', 1, 3, 'plain'), ('text', 0, 4, 'plain'), ('mixed', 30, 5, 'loose'), ('text', 12, 6, 'both')]},
    # several pack files (small pack_size_target): damage in a pack that is not the last one
    {'hash_type': 'sha256', 'level': 5, 'pack_size_target': 40, 'objs': [('text', 45, 1, 'plain'), ('text', 60, 2, 'z'), ('random', 25, 3, 'plain'), ('random', 30, 4, 'plain'), ('text', 50, 5, 'z')]},
)


def build_fixture(root, fixture):
    from disk_objectstore import Container

    path = os.path.join(root, 'fx')
    cont = Container(path)
    cont.init_container(hash_type=fixture['hash_type'], compression_algorithm=f"zlib+{fixture['level']}",
                        pack_size_target=fixture.get('pack_size_target', 4 * 1024**3))
    model = {}
    for cls, size, seed, form in fixture['objs']:
        data = content_of([cls, size, seed])
        if form in ('loose', 'both'):
            key = cont.add_object(data)
        if form in ('plain', 'z', 'both'):
            key = cont.add_objects_to_pack([data], compress=form == 'z')[0]
        model[key] = data
    cont.close()
    return path, model


def exhaustive(ctx, fixtures, stride):
    from disk_objectstore import Container

    index = 0
    for number, fixture in enumerate(fixtures):
        root = new_dir('c12x')
        try:
            path, model = build_fixture(root, fixture)
            work = os.path.join(root, 'work')
            for desc in damage.enumerate_damages(path):
                index += 1
                if index % stride or not ctx.mine(index // stride):
                    continue
                if ctx.out_of_time():
                    ctx.stats.skipped_budget += 1
                    continue
                shutil.rmtree(work, ignore_errors=True)
                shutil.copytree(path, work)
                damage.apply_descriptor(work, desc)
                verdict = damage.judge(work, model, Container)
                cls = desc['class'] + (':compressed' if desc.get('compressed') else '')
                ctx.stats.label(f'x:{cls}')
                if verdict['effective']:
                    ctx.stats.label(f'x:{cls}:effective')
                    if verdict['validate_clean']:
                        ctx.stats.violations.append(
                            {'property': PROP, 'sig': f'validate:false-negative:{desc["class"]}',
                             'msg': f'fixture {number}: damage {desc} makes {verdict["why"]} but validate() is clean',
                             'case': {'fixture': number, 'damage': desc}, 'log': None}
                        )
                        return
                ctx.stats.record(verdict['effective'], ['x', number, desc], {'fixture': number, 'damage': desc, 'effective': verdict['effective']})
        finally:
            rm_dir(root)
    ctx.stats.exhaustive = stride == 1
    ctx.stats.extra['exhaustive_damage_stride'] = stride


def shrink(case, exc):
    return ddmin_ops(case, exc, run_one)


def run_shard(ctx):
    n = 40 if ctx.tier == 'quick' else 3200
    ctx.set_budget(55 if ctx.tier == 'quick' else 1100)
    explore(ctx, strategy(ctx.tier), run_one, n, shrink=shrink)
    if not ctx.stats.violations:
        ctx.set_budget(40 if ctx.tier == 'quick' else 1100)
        exhaustive(ctx, FIXTURES, 1)


def replay(case):
    if 'fixture' in case:
        from disk_objectstore import Container

        root = new_dir('c12r')
        try:
            path, model = build_fixture(root, FIXTURES[case['fixture']])
            damage.apply_descriptor(path, case['damage'])
            verdict = damage.judge(path, model, Container)
            if verdict['effective'] and verdict['validate_clean']:
                raise Violation(PROP, f'validate:false-negative:{case["damage"]["class"]}', f'damage {case["damage"]} makes {verdict["why"]} but validate() is clean')
        finally:
            rm_dir(root)
        return
    run_one(case)
