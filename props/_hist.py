"""Common driver for the properties decided on generated operation histories."""

from __future__ import annotations

from vlib.common import Violation
from vlib.interp import run_case
from vlib.runner import ddmin_ops, explore


def make_run_one(prop, checkers_factory, nontrivial_rule, nhandles=1, fingerprint=None):
    def run_one(case):
        world = run_case(case, checkers_factory, prop, nhandles=nhandles)
        flags = sorted(world.flags)
        labels = [f'flag:{f}' for f in flags] + [f'op:{k}' for k, v in world.stats.items() for _ in range(0)]
        labels.append('history')
        if case.get('lowered'):
            labels.append('lowered-thresholds')
        labels.append(f'len:{min(len(case["ops"]) // 10 * 10, 60)}+')
        for kind, count in world.stats.items():
            labels.append(f'hist-with:{kind}')
        nontrivial = bool(nontrivial_rule(world))
        fp = fingerprint(world) if fingerprint else [case['cfg'], [o['k'] for o in case['ops']], flags, _opsig(world)]
        sample = {'cfg': case['cfg'], 'ops': world.log[:25], 'flags': flags}
        world.op_counts = dict(world.stats)
        return nontrivial, fp, sample, labels

    return run_one


def _opsig(world):
    return [str(sorted((k, v) for k, v in e.items() if k in ('op', 'mode', 'no_holes', 'read_twice', 'compress', 'api', 'via'))) for e in world.log]


def run_histories(ctx, prop, strategy, checkers_factory, nontrivial_rule, max_examples, nhandles=1, salt=0):
    run_one = make_run_one(prop, checkers_factory, nontrivial_rule, nhandles=nhandles)

    def shrink(case, exc):
        return ddmin_ops(case, exc, run_one)

    explore(ctx, strategy, run_one, max_examples, salt=salt, shrink=shrink)
    return run_one


def replay_history(case, prop, checkers_factory, nhandles=1):
    run_case(case, checkers_factory, prop, nhandles=nhandles)


__all__ = ['Violation', 'make_run_one', 'run_histories', 'replay_history']
