"""C13 - packs are append-only and filled in order."""

from vlib import gen
from vlib.checkers import AppendOnlyChecker

from ._hist import replay_history, run_histories

PROP = 'C13'
LEVEL = 'exploration'
RULE = (
    'Hypothesis-generated histories WITHOUT repack/delete (add, direct-to-pack with all flags, pack_all_loose, clean_storage, '
    'import, loosen, reopen) over small and large pack_size_target, issued alternately through three handles on the same '
    'folder (fresh and long-open, so the cached current pack id is both cold and stale); every pack file and all rows are '
    'snapshotted before each step and compared after it: referenced ranges byte-identical, size(pack) >= last referenced '
    'byte, pack ids == range(n), every pack but the highest >= target, a pack that was not the highest is byte-identical '
    '(never written again), old content is a prefix up to the last referenced byte. An operation that raises (a stale handle '
    'may get "database is locked") must leave these invariants intact as well. Non-trivial = history producing >= 3 packs, '
    'a no_holes call with a repeat, or a handle switch between pack-writing steps.'
)
ASSUMPTIONS = ['no repack and no deletion in the history (as the property states)', 'operations are sequential; one client writes packs at a time']

WEIGHTS = {'add': 8, 'addpack': 9, 'pack': 7, 'clean': 3, 'aux_add': 2, 'import': 3, 'loosen': 1, 'reopen': 3, 'switch': 5, 'seekread': 1, 'addfail': 2, 'stale_lock': 2}


def strategy(tier='quick'):
    return gen.history_case(WEIGHTS, min_ops=2, max_ops=30 if tier == 'quick' else 60, max_size=70000, boundary_weight=1,
                            targets=(1, 64, 300, 1000, 20000, 4 * 1024 ** 3))


def checkers():
    return [AppendOnlyChecker()]


def nontrivial(world):
    return bool({'three-packs', 'no-holes-dup', 'handle-switch'} & world.flags)


def run_shard(ctx):
    n = 120 if ctx.tier == 'quick' else 6000
    ctx.set_budget(80 if ctx.tier == 'quick' else 1100)
    run_histories(ctx, PROP, strategy(ctx.tier), checkers, nontrivial, n, nhandles=3)


def replay(case):
    replay_history(case, PROP, checkers, nhandles=3)
