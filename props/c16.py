"""C16 - bulk operations do not depend on batch size or internal lookup strategy."""

import itertools
import os

from hypothesis import strategies as st

from vlib import gen
from vlib.common import Violation, absent_key, config_kwargs, content_of, digest, new_dir, rm_dir
from vlib.rawread import RawState
from vlib.runner import explore

PROP = 'C16'
LEVEL = 'exploration'
RULE = (
    '(a) @given(container with generated objects loose / packed / both, request list with repeats, missing keys and arbitrary '
    'order, thresholds): every bulk API (has_objects, get_objects_meta, get_objects_content, get_objects_stream_and_meta with '
    'skip_if_missing both ways; then one of delete_objects / pack_all_loose / clean_storage / import_objects) is run on a '
    'Container subclass with lowered class attributes _IN_SQL_MAX_LENGTH in {1,2,3,950} x _MAX_CHUNK_ITERATE_LENGTH in '
    '{0,1,4,9500} and compared with the single-key operation applied to each distinct key under default thresholds and with '
    'the dict model; permuting and duplicating the request must not change the result; every distinct key reported exactly '
    'once. (b) real thresholds: fixture of 2100 tiny packed objects (crosses the 1000-row paging twice) queried with '
    '949/950/951 and 9499/9500/9501 distinct keys, listing, no_holes known-key listing. (c) EXHAUSTIVE: all 2^14 pairs of '
    'sorted duplicate-free sequences over a 7-element universe for detect_where_sorted (also with left_key) and merge_sorted '
    'against set algebra; all sequences of length <= 4 over a 4-element universe that are not sorted-unique must raise '
    'ValueError when consumed; chunk_iterator for all n <= 12, size <= 5. Non-trivial (a) = request crossing a (lowered) '
    'threshold with a missing and a repeated key; every enumerated helper case counts once.'
)
ASSUMPTIONS = ['thresholds are lowered through class attributes of a subclass (no source change)', 'single client']

IN_VALUES = (1, 2, 3, 950)
CHUNK_VALUES = (0, 1, 4, 9500)
MUTATORS = ('none', 'delete', 'pack', 'clean', 'import')


def strategy():
    return st.fixed_dictionaries(
        {
            'cfg': gen.config(targets=(64, 1000, 4 * 1024**3)),
            'pool': st.lists(gen.content_desc(600, 0), min_size=1, max_size=12),
            'objs': st.lists(st.tuples(st.integers(0, 11), st.integers(0, 2)), min_size=1, max_size=12),
            'request': st.lists(st.integers(0, 95), min_size=0, max_size=16),
            'in_len': st.sampled_from(IN_VALUES),
            'chunk_len': st.sampled_from(CHUNK_VALUES),
            'mutator': st.sampled_from(MUTATORS),
            'perm': st.integers(0, 10**6),
            'compress': st.booleans(),
        }
    )


def make_class(in_len, chunk_len):
    from disk_objectstore import Container

    class Lowered(Container):  # pylint: disable=too-few-public-methods
        _IN_SQL_MAX_LENGTH = in_len
        _MAX_CHUNK_ITERATE_LENGTH = chunk_len

    return Lowered


def permute(items, seed):
    items = list(items)
    out = []
    while items:
        seed, idx = divmod(seed * 1103515245 + 12345, len(items))
        out.append(items.pop(idx))
    return out


def read_suite(cont, request, tag):
    """Return a normalised dict of every bulk read API's answer; raises on 'reported twice'."""
    from disk_objectstore.container import ObjectType

    out = {}
    out['has'] = dict(zip(request, cont.has_objects(request)))
    if len(out['has']) != len(set(request)):
        raise Violation(PROP, 'has-length', f'{tag}: has_objects result misaligned')
    for skip in (True, False):
        metas = list(cont.get_objects_meta(request, skip_if_missing=skip))
        keys = [k for k, _ in metas]
        if len(keys) != len(set(keys)):
            raise Violation(PROP, 'meta-twice', f'{tag}: get_objects_meta(skip={skip}) reports a key twice')
        out[f'meta{skip}'] = {k: (m.type.value, m.size, m.pack_id, m.pack_offset, m.pack_length, m.pack_compressed) for k, m in metas}
        if not skip and set(keys) != set(request):
            raise Violation(PROP, 'meta-noskip-keys', f'{tag}: get_objects_meta(skip_if_missing=False) does not report every distinct key')
        if skip and any(m.type == ObjectType.MISSING for _, m in metas):
            raise Violation(PROP, 'meta-skip-missing', f'{tag}: get_objects_meta(skip_if_missing=True) yields a MISSING entry')
        out[f'content{skip}'] = cont.get_objects_content(request, skip_if_missing=skip)
        seen = {}
        with cont.get_objects_stream_and_meta(request, skip_if_missing=skip) as triplets:
            for key, stream, meta in triplets:
                if key in seen:
                    raise Violation(PROP, 'stream-twice', f'{tag}: get_objects_stream_and_meta(skip={skip}) yields {key[:10]} twice')
                seen[key] = (None if stream is None else stream.read(), meta.size)
        out[f'stream{skip}'] = seen
    return out


def run_case(case):  # pylint: disable=too-many-locals,too-many-branches,too-many-statements
    from disk_objectstore import Container
    from disk_objectstore.exceptions import NotExistent

    cfg = case['cfg']
    hash_type = cfg['hash_type']
    pool = [content_of(d) for d in case['pool']]
    root = new_dir('c16')
    path = os.path.join(root, 'c')
    base = Container(path)
    handles = [base]
    try:
        base.init_container(**config_kwargs(cfg))
        model = {}
        for idx, form in case['objs']:
            data = pool[idx % len(pool)]
            if form in (0, 2):
                key = base.add_object(data)
            if form in (1, 2):
                key = base.add_objects_to_pack([data], compress=case['compress'])[0]
            model[key] = data
        keys = sorted(model)
        request = []
        for sel in case['request']:
            request.append(absent_key(hash_type, sel // 4 % 6) if sel % 4 == 0 else keys[(sel // 4) % len(keys)])
        lowered_cls = make_class(case['in_len'], case['chunk_len'])
        low = lowered_cls(path)
        handles.append(low)
        tag = f'IN={case["in_len"]} CHUNK={case["chunk_len"]} n={len(set(request))}'
        # reference: single-key operations under default thresholds
        ref_has, ref_content, ref_meta = {}, {}, {}
        for key in set(request):
            ref_has[key] = base.has_object(key)
            try:
                ref_content[key] = base.get_object_content(key)
                meta = base.get_object_meta(key)
                ref_meta[key] = (meta.type.value, meta.size, meta.pack_id, meta.pack_offset, meta.pack_length, meta.pack_compressed)
            except NotExistent:
                ref_content[key] = None
                ref_meta[key] = ('missing', None, None, None, None, None)
            if ref_has[key] != (key in model) or ref_content[key] != model.get(key):
                raise Violation(PROP, 'single-vs-model', f'single-key answer for {key[:10]} disagrees with the model')
        answers = []
        for cont, req, name in (
            (low, request, 'lowered'),
            (base, request, 'default'),
            (low, permute(request, case['perm']), 'lowered-permuted'),
            (low, request + request[: len(request) // 2 + 1], 'lowered-duplicated'),
        ):
            ans = read_suite(cont, req, f'{tag} {name}')
            answers.append(ans)
            if ans['has'] != ref_has:
                raise Violation(PROP, 'has-vs-single', f'{tag} {name}: has_objects {sum(ans["has"].values())} true vs per-key {sum(ref_has.values())}')
            want_present = {k: v for k, v in ref_content.items() if v is not None}
            if ans['contentTrue'] != want_present or ans['contentFalse'] != ref_content:
                raise Violation(PROP, 'content-vs-single', f'{tag} {name}: get_objects_content differs from per-key reads')
            if ans['metaFalse'] != ref_meta or ans['metaTrue'] != {k: v for k, v in ref_meta.items() if v[0] != 'missing'}:
                raise Violation(PROP, 'meta-vs-single', f'{tag} {name}: get_objects_meta differs from per-key metadata')
            want_stream = {k: (v, None if v is None else len(v)) for k, v in ref_content.items()}
            if ans['streamFalse'] != want_stream or ans['streamTrue'] != {k: v for k, v in want_stream.items() if v[0] is not None}:
                raise Violation(PROP, 'stream-vs-single', f'{tag} {name}: get_objects_stream_and_meta differs from per-key reads')
        # one mutating bulk operation under lowered thresholds
        mut = case['mutator']
        if mut == 'delete':
            ret = low.delete_objects(request)
            want = {k for k in request if k in model}
            if len(ret) != len(set(ret)) or set(ret) != want:
                raise Violation(PROP, 'delete-result', f'{tag}: delete_objects returned {len(ret)} keys, expected {len(want)}')
            for key in want:
                del model[key]
        elif mut == 'pack':
            low.pack_all_loose(compress=case['compress'])
            raw = RawState(path)
            unpacked = set(raw.loose_paths) - {r.hashkey for r in raw.rows}
            if unpacked:
                raise Violation(PROP, 'pack-incomplete', f'{tag}: pack_all_loose left {len(unpacked)} loose objects unpacked')
        elif mut == 'clean':
            raw0 = RawState(path)
            low.clean_storage()
            raw = RawState(path)
            packed = {r.hashkey for r in raw.rows}
            if set(raw.loose_paths) != set(raw0.loose_paths) - packed:
                raise Violation(PROP, 'clean-result', f'{tag}: clean_storage left {sorted(k[:8] for k in raw.loose_paths)}; packed={sorted(k[:8] for k in packed)}')
        elif mut == 'import':
            other = Container(os.path.join(root, 'other'))
            handles.append(other)
            other.init_container(**config_kwargs(cfg))
            other.add_objects_to_pack(pool[:1])
            mapping = other.import_objects(request, low)
            want = {k for k in request if k in model}
            for key in want:
                if other.get_object_content(key) != model[key]:
                    raise Violation(PROP, 'import-content', f'{tag}: imported {key[:10]} differs')
            if not set(mapping) <= want or any(k != v for k, v in mapping.items()):
                raise Violation(PROP, 'import-mapping', f'{tag}: mapping {len(mapping)} entries inconsistent')
            got_keys = set(other.list_all_objects())
            if got_keys != want | {digest(hash_type, pool[0])}:
                raise Violation(PROP, 'import-keys', f'{tag}: destination holds {len(got_keys)} keys, expected {len(want) + 1}')
        if mut != 'none':
            fresh = lowered_cls(path)
            handles.append(fresh)
            probe = sorted(set(request) | set(keys))
            has = dict(zip(probe, fresh.has_objects(probe)))
            if has != {k: k in model for k in probe}:
                raise Violation(PROP, f'after-{mut}', f'{tag}: has_objects after {mut} differs from the model')
            content = fresh.get_objects_content(probe)
            if content != {k: model[k] for k in probe if k in model}:
                raise Violation(PROP, f'after-{mut}-content', f'{tag}: contents after {mut} differ from the model')
            if set(fresh.list_all_objects()) != set(model):
                raise Violation(PROP, f'after-{mut}-list', f'{tag}: listing after {mut} differs from the model')
    finally:
        for handle in handles:
            handle.close()
        rm_dir(root)
    distinct = len(set(request))
    crosses = distinct > case['in_len'] or distinct > case['chunk_len']
    has_missing = any(k not in ref_has or not ref_has[k] for k in set(request))
    has_repeat = len(request) != distinct
    nontrivial = crosses and has_missing and has_repeat
    strategy_used = 'full-scan' if distinct > case['chunk_len'] else 'in-batches'
    labels = [f'strategy:{strategy_used}', f'mutator:{mut}', f'IN={case["in_len"]}', f'CHUNK={case["chunk_len"]}']
    if has_missing:
        labels.append('has-missing')
    if has_repeat:
        labels.append('has-repeat')
    fp = [cfg['hash_type'], case['in_len'], case['chunk_len'], mut, distinct, len(request), case['objs'], has_missing]
    sample = {'IN': case['in_len'], 'CHUNK': case['chunk_len'], 'mutator': mut, 'request_len': len(request), 'distinct': distinct,
              'objects': len(keys), 'strategy': strategy_used}
    return nontrivial, fp, sample, labels


# ------------------------------------------------------------------------------------------- (c) helpers, exhaustive


def helpers_exhaustive(ctx):
    from disk_objectstore.utils import Location, chunk_iterator, detect_where_sorted, merge_sorted

    universe = list(range(7))
    subsets = [[x for x in universe if mask >> x & 1] for mask in range(128)]
    count = 0
    index = 0
    for left in subsets:
        for right in subsets:
            index += 1
            if not ctx.mine(index):
                continue
            want = []
            for item in sorted(set(left) | set(right)):
                where = Location.BOTH if item in left and item in right else Location.LEFTONLY if item in left else Location.RIGHTONLY
                want.append((item, where))
            got = list(detect_where_sorted(iter(left), iter(right)))
            if got != want:
                viol(ctx, 'detect_where_sorted', f'left={left} right={right} gave {got}', {'left': left, 'right': right, 'helper': 'detect'})
                return
            tl = [(f'payload{x}', x) for x in left]
            got2 = list(detect_where_sorted(tl, right, left_key=lambda t: t[1]))
            want2 = [((f'payload{i}', i) if w != Location.RIGHTONLY else i, w) for i, w in want]
            if got2 != want2:
                viol(ctx, 'detect_where_sorted:left_key', f'left={tl} right={right} gave {got2}', {'left': left, 'right': right, 'helper': 'detect-key'})
                return
            merged = list(merge_sorted(left, right))
            if merged != sorted(set(left) | set(right)):
                viol(ctx, 'merge_sorted', f'left={left} right={right} gave {merged}', {'left': left, 'right': right, 'helper': 'merge'})
                return
            count += 1
            ctx.stats.record(bool(left) and bool(right), ['detect', left, right], {'helper': 'detect_where_sorted', 'left': left, 'right': right})
    # unsorted / non-unique inputs must raise
    small = list(range(4))
    sorted_unique = [[x for x in small if mask >> x & 1] for mask in range(16)]
    for length in range(2, 5):
        for seq in itertools.product(small, repeat=length):
            seq = list(seq)
            if all(a < b for a, b in zip(seq, seq[1:])):
                continue
            for other in sorted_unique:
                for side in (0, 1):
                    index += 1
                    if not ctx.mine(index):
                        continue
                    args = (seq, other) if side == 0 else (other, seq)
                    try:
                        list(detect_where_sorted(*args))
                    except ValueError:
                        count += 1
                        ctx.stats.record(True, ['unsorted', seq, other, side], None)
                        continue
                    viol(ctx, 'unsorted-accepted', f'detect_where_sorted({args}) did not raise', {'seq': seq, 'other': other, 'side': side, 'helper': 'unsorted'})
                    return
    for n in range(13):
        for size in range(1, 6):
            index += 1
            if not ctx.mine(index):
                continue
            chunks = list(chunk_iterator(range(n), size))
            flat = [x for c in chunks for x in c]
            ok = flat == list(range(n)) and all(len(c) == size for c in chunks[:-1]) and all(0 < len(c) <= size for c in chunks)
            if not ok:
                viol(ctx, 'chunk_iterator', f'n={n} size={size} gave {chunks}', {'n': n, 'size': size, 'helper': 'chunk'})
                return
            count += 1
            ctx.stats.record(n > size, ['chunk', n, size], None)
    ctx.stats.label('helper-cases', count)
    ctx.stats.exhaustive = True


def viol(ctx, sig, msg, case):
    ctx.stats.violations.append({'property': PROP, 'sig': sig, 'msg': msg, 'case': case, 'log': None})


# ------------------------------------------------------------------------------------------- (b) real thresholds


def real_thresholds(ctx, big):
    from disk_objectstore import Container

    root = new_dir('c16b')
    path = os.path.join(root, 'c')
    cont = Container(path)
    try:
        cont.init_container(pack_size_target=20000)
        datas = [b'obj-%d' % i for i in range(2100)]
        keys = cont.add_objects_to_pack(datas[:1500]) + cont.add_objects_to_pack(datas[1500:], compress=True)
        model = dict(zip(keys, datas))
        loose = [cont.add_object(b'loose-%d' % i) for i in range(30)]
        for i, key in enumerate(loose):
            model[key] = b'loose-%d' % i
        absent = [absent_key('sha256', i) for i in range(9700)]
        listing = list(cont.list_all_objects())
        if len(listing) != len(set(listing)) or set(listing) != set(model):
            raise Violation(PROP, 'real:listing-paging', f'list_all_objects over 2100 rows returned {len(listing)} keys ({len(set(listing))} distinct), expected {len(model)}')
        sizes = [949, 950, 951, 1899, 1900, 1901] + ([9499, 9500, 9501] if big else [])
        for size in sizes:
            present = sorted(model)[: min(size - 5, 2125)]
            request = present + absent[: size - len(present)]
            assert len(set(request)) == size
            has = cont.has_objects(request)
            if has != [k in model for k in request]:
                raise Violation(PROP, 'real:has', f'has_objects with {size} keys: {sum(has)} true, expected {len(present)}')
            content = cont.get_objects_content(request)
            if content != {k: model[k] for k in present}:
                raise Violation(PROP, 'real:content', f'get_objects_content with {size} keys differs')
            metas = list(cont.get_objects_meta(request, skip_if_missing=False))
            if len(metas) != size or len({k for k, _ in metas}) != size:
                raise Violation(PROP, 'real:meta', f'get_objects_meta with {size} keys yields {len(metas)} entries')
            ctx.stats.record(True, ['real', size], {'real_thresholds_request': size})
        # more than 9500 keys that are found nowhere (second, "final try" index look-up takes the full-scan strategy too)
        for n_absent in (9499, 9500, 9501, 9600):
            present = sorted(model)[:40]
            request = present + absent[:n_absent]
            metas = list(cont.get_objects_meta(request, skip_if_missing=False))
            if len(metas) != len(request) or len({k for k, _ in metas}) != len(request):
                raise Violation(PROP, 'real:meta-many-missing', f'get_objects_meta with 40 stored + {n_absent} missing keys yields {len(metas)} entries for {len(request)} distinct keys')
            seen = []
            with cont.get_objects_stream_and_meta(request, skip_if_missing=True) as triplets:
                for key, stream, _ in triplets:
                    seen.append(key)
                    if stream.read() != model[key]:
                        raise Violation(PROP, 'real:stream-many-missing', f'wrong bytes for {key[:10]}')
            if sorted(seen) != sorted(present):
                raise Violation(PROP, 'real:stream-many-missing', f'get_objects_stream_and_meta with 40 stored + {n_absent} missing keys yields {len(seen)} streams ({len(set(seen))} distinct)')
            if cont.has_objects(request) != [True] * 40 + [False] * n_absent:
                raise Violation(PROP, 'real:has-many-missing', f'has_objects wrong with {n_absent} missing keys')
            ctx.stats.record(True, ['real-missing', n_absent], {'real_thresholds_missing_keys': n_absent})
        # no_holes listing of known keys pages by 1000 rows
        before = RawState(path)
        again = [datas[0], datas[999], datas[1000], datas[1001], datas[1999], datas[2000], datas[2099], b'brand new']
        cont.add_objects_to_pack(again, no_holes=True)
        after = RawState(path)
        if len(after.rows) != len(before.rows) + 1:
            raise Violation(PROP, 'real:no_holes-known', f'no_holes re-add of known keys added {len(after.rows) - len(before.rows)} rows, expected 1')
        growth = sum(after.pack_sizes.values()) - sum(before.pack_sizes.values())
        if growth != len(b'brand new'):
            raise Violation(PROP, 'real:no_holes-growth', f'no_holes re-add of known keys across the 1000-row pages grew packs by {growth}')
        # packing / cleaning many loose objects
        cont.pack_all_loose()
        cont.clean_storage()
        raw = RawState(path)
        if raw.loose_paths or len(raw.rows) != len(model) + 1:
            raise Violation(PROP, 'real:pack-clean', f'after pack+clean: {len(raw.loose_paths)} loose, {len(raw.rows)} rows')
        # more than 950 loose objects at once (several IN batches), some of them already packed
        fresh = [b'second-wave-%d' % i for i in range(900)]
        for blob in fresh + datas[100:160]:
            cont.add_object(blob)
        before = RawState(path)
        cont.pack_all_loose()
        after = RawState(path)
        if len(after.rows) != len(before.rows) + len(fresh):
            raise Violation(PROP, 'real:pack-many-loose', f'packing 960 loose objects (60 already packed) added {len(after.rows) - len(before.rows)} rows, expected {len(fresh)}')
        growth = sum(after.pack_sizes.values()) - sum(before.pack_sizes.values())
        if growth != sum(len(b) for b in fresh):
            raise Violation(PROP, 'real:pack-many-loose-growth', f'packs grew by {growth} bytes, the 900 new objects have {sum(len(b) for b in fresh)}')
        cont.clean_storage()
        if RawState(path).loose_paths:
            raise Violation(PROP, 'real:clean-many-loose', 'clean_storage left loose files that are packed')
        ctx.stats.record(True, ['real', 'pack-many-loose'], {'real_thresholds': 'pack_all_loose with 960 loose objects, 60 already packed'})
    finally:
        cont.close()
        rm_dir(root)


def run_shard(ctx):
    n = 120 if ctx.tier == 'quick' else 12000
    ctx.set_budget(60 if ctx.tier == 'quick' else 1100)
    explore(ctx, strategy(), run_case, n)
    if ctx.stats.violations:
        return
    helpers_exhaustive(ctx)
    if ctx.shard == 0 and not ctx.stats.violations:
        try:
            real_thresholds(ctx, big=True)
        except Violation as exc:
            ctx.stats.violations.append({'property': exc.prop, 'sig': exc.sig, 'msg': exc.msg, 'case': {'real_thresholds': True}, 'log': None})


def replay(case):
    if case.get('real_thresholds'):
        from vlib.runner import Ctx

        real_thresholds(Ctx(PROP, 'quick', 1, 0, 1), big=True)
        return
    if 'helper' in case:
        from vlib.runner import Ctx

        ctx = Ctx(PROP, 'quick', 1, 0, 1)
        helpers_exhaustive(ctx)
        if ctx.stats.violations:
            first = ctx.stats.violations[0]
            raise Violation(PROP, first['sig'], first['msg'])
        return
    run_case(case)
