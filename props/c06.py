"""C06 - publish only after durable; remove only after the replacement is durable."""

from vlib.runner import explore

from . import _crash as cr

PROP = 'C06'
LEVEL = 'fault_enumeration'
RULE = (
    'As C05 - Hypothesis-generated (pre-state, operation) pairs, all operations with the DEFAULT fsync settings '
    '(do_fsync=True) - but every one of the N state-changing events of the operation is combined with the adversarial '
    'power-loss image: the I/O shim records, per inode, the content at the last os.fsync/fdatasync/F_FULLFSYNC of a descriptor '
    'on it; in the image taken before event k every regular file holds only that content (its content at operation start if '
    'not synced since, nothing if created during the operation and never synced), while directory entries, renames, links, '
    'unlinks and the SQLite files (committed transactions are trusted durable) are as at event k. Oracle on the image (raw '
    'reader + fresh handle, as C05): every previously stored object not targeted by a deletion is complete on disk; no '
    'visible key (loose file name or index row) has missing, truncated or wrong bytes. Non-trivial = image taken after at '
    'least one raw data write of the operation; distinct by (operation parameters, k, event kind).'
)
ASSUMPTIONS = [
    'storage-fault model of the property: only fsynced file data survives; directory operations and committed SQLite transactions survive',
    'SQLite WAL commit durability is trusted',
    'the shim sees every sync call the library issues (os.fsync, os.fdatasync, fcntl F_FULLFSYNC)',
]
MAX_SHARDS = 16


def run_pair(case, ctx=None):
    prep = cr.Prepared(case, PROP)
    labels = []
    try:
        if prep.rop is None or not cr.fsync_safe(prep.rop):
            return False, ['skip'], None, ['pair-skipped']
        points, images = cr.snapshot_run(prep, cr.MUTATING_KINDS, 'powerloss')
        desc = prep.describe()
        labels.append(f'op:{desc["op"]}')
        labels += [f'warm-up:{cr.WARM_UPS[p % 8]}' for p in desc.get('prelude', [])]
        labels.append('pair-exhaustive')
        first_write = next((i for i, p in enumerate(points) if p[0] == 'write'), None)
        for k, _, folder in images:
            syncs = [p[1] for p in points[:k] if p[0] == 'fsync']
            context = (
                f'{desc}: power lost before event {k}/{len(points)} {points[k][1]}; previous event: {points[k - 1][1] if k else "-"}; '
                f'syncs so far: {syncs[-4:]}'
            )
            cr.inspect_state(folder, PROP, prep.model, prep.candidates, prep.deleted, prep.planted, context=context)
            if ctx is not None:
                ctx.stats.label(f'power-loss-before:{points[k][0]}')
                ctx.stats.record(
                    first_write is not None and k > first_write, [desc, k, points[k][0], len(points)],
                    {'operation': desc, 'events': len(points), 'power_lost_before': k, 'event': points[k][1], 'fsyncs_before': len(syncs)},
                )
        return True, [desc, len(points)], None, labels
    finally:
        prep.close()


def run_shard(ctx):
    quick = ctx.tier == 'quick'
    ctx.set_budget(70 if quick else 1100)

    def run_one(case):
        _, fp, _, labels = run_pair(case, ctx)
        for label in labels:
            ctx.stats.label(label)
        return False, fp, None, []

    explore(ctx, cr.strategy(force_fsync=True), run_one, 120 if quick else 8000)
    ctx.stats.extra['pairs'] = ctx.stats.hist.get('pair-exhaustive', 0)
    ctx.stats.extra['every_event_of_every_pair_used'] = True
    ctx.stats.evaluations -= ctx.stats.extra['pairs'] + ctx.stats.hist.get('pair-skipped', 0)


def replay(case):
    run_pair(case)
