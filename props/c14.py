"""C14 - importing transfers exactly the requested objects, byte-identical."""

import os

from hypothesis import strategies as st

from vlib import gen
from vlib.common import LOWERED_CHOICES, Violation, absent_key, config_kwargs, container_class, content_of, digest, new_dir, rm_dir
from vlib.interp import RecordingCallback
from vlib.rawread import RawState, check_consistency
from vlib.runner import explore

PROP = 'C14'
LEVEL = 'exploration'
RULE = (
    '@given(source and destination configurations (hash types {sha1,sha256}^2, levels, destination pack_size_target small/'
    'large), source objects in all forms (loose / packed / packed compressed), destination pre-populated with a generated '
    'subset (loose, packed, both), request over present, absent and repeated source keys delivered as list / tuple / set / '
    'one-shot generator, compress, target_memory_bytes in {1, median object size + 1, larger than everything} with object '
    'sizes on both sides of it, callback none/recording, do_fsync). Oracle: every requested key the source holds is in the '
    'destination with identical bytes under the destination digest of its content; the returned mapping sends every key it '
    'mentions to exactly that digest and mentions no key the source lacks; rows the destination held before are untouched; '
    'packs grew by exactly the stored length of rows new to the index (no second copy, no unreferenced bytes); with equal '
    'hash types nothing already present (loose or packed) is written again and no loose file appears; all other destination '
    'objects read unchanged; raw state consistent; callback protocol well formed. Non-trivial = at least one object actually '
    'transferred AND (at least one requested object already present, or objects on both sides of the memory budget).'
)
ASSUMPTIONS = ['import_objects is a maintenance operation run by a single client', 'source container is not modified during the import']


def strategy():
    obj = st.tuples(st.integers(0, 9), st.integers(0, 2))
    return st.fixed_dictionaries(
        {
            'src_cfg': gen.config(),
            'dst_cfg': gen.config(targets=(1, 64, 1000, 4 * 1024**3)),
            'same_hash': st.booleans(),
            'pool': st.lists(gen.content_desc(5000, 1), min_size=1, max_size=10),
            'big': st.lists(gen.content_desc(140000, 2), max_size=1),
            'src': st.lists(obj, min_size=1, max_size=10),
            'dst': st.lists(obj, max_size=6),
            'request': st.lists(st.integers(0, 63), min_size=0, max_size=12),
            'iterable': st.integers(0, 3),
            'compress': st.booleans(),
            'budget': st.integers(0, 2),
            'callback': st.booleans(),
            'do_fsync': st.booleans(),
            'lowered': st.sampled_from(list(LOWERED_CHOICES)),
        }
    )


def run_case(case):  # pylint: disable=too-many-locals,too-many-branches,too-many-statements
    Container = container_class(case.get('lowered'))

    src_cfg = dict(case['src_cfg'])
    dst_cfg = dict(case['dst_cfg'])
    if case['same_hash']:
        src_cfg['hash_type'] = dst_cfg['hash_type']
    else:
        src_cfg['hash_type'] = 'sha1' if dst_cfg['hash_type'] == 'sha256' else 'sha256'
    pool = [content_of(d) for d in case['pool'] + case['big']]
    root = new_dir('c14')
    src = Container(os.path.join(root, 'src'))
    dst = Container(os.path.join(root, 'dst'))
    try:
        src.init_container(**config_kwargs(src_cfg))
        dst.init_container(**config_kwargs(dst_cfg))
        src_model = {}
        for idx, form in case['src']:
            data = pool[idx % len(pool)]
            if form == 0:
                key = src.add_object(data)
            else:
                key = src.add_objects_to_pack([data], compress=form == 2)[0]
            src_model[key] = data
        dst_model = {}
        for idx, form in case['dst']:
            data = pool[idx % len(pool)]
            if form in (0, 2):
                key = dst.add_object(data)
            if form in (1, 2):
                key = dst.add_objects_to_pack([data])[0]
            dst_model[key] = data
        src_keys = sorted(src_model)
        request = []
        for sel in case['request']:
            dst_only = sorted(k for k in dst_model if k not in src_model)
            if sel % 4 == 0 and (sel // 4) % 2 and dst_only:
                # a key the source lacks but the DESTINATION holds: still a key "the source lacks", to be ignored
                request.append(dst_only[(sel // 8) % len(dst_only)])
            elif sel % 4 == 0:
                request.append(absent_key(src_cfg['hash_type'], sel // 4 % 4))
            else:
                request.append(src_keys[(sel // 4) % len(src_keys)])
        sizes = sorted(len(v) for v in src_model.values())
        budget = (1, sizes[len(sizes) // 2] + 1, 104857600)[case['budget']]
        kind = case['iterable']
        iterable = [list(request), tuple(request), set(request), (k for k in request)][kind]
        callback = RecordingCallback() if case['callback'] else None
        before = RawState(os.path.join(root, 'dst'))
        before_rows = {r.hashkey: r for r in before.rows}
        before_pack_bytes = {n: before.pack_bytes(n) for n in before.pack_names}
        dst.close()
        dst = Container(os.path.join(root, 'dst'))
        sig_ctx = f'same_hash={case["same_hash"]} iterable={("list", "tuple", "set", "generator")[kind]} callback={case["callback"]} budget={budget}'
        try:
            mapping = dst.import_objects(
                iterable, src, compress=case['compress'], target_memory_bytes=budget, callback=callback, do_fsync=case['do_fsync']
            )
        except Exception as exc:  # pylint: disable=broad-except
            raise Violation(PROP, f'import-raised:{type(exc).__name__}', f'import_objects raised {exc!r} ({sig_ctx})') from exc
        wanted = {k for k in request if k in src_model}
        dhash = dst_cfg['hash_type']
        # mapping
        if not isinstance(mapping, dict):
            raise Violation(PROP, 'mapping-type', f'returned {type(mapping)}')
        for old, new in mapping.items():
            if old not in src_model:
                raise Violation(PROP, 'mapping-unknown-key', f'mapping mentions {old[:10]} which the source lacks ({sig_ctx})')
            if new != digest(dhash, src_model[old]):
                raise Violation(PROP, 'mapping-wrong-target', f'mapping sends {old[:10]} to {new[:10]}, expected {digest(dhash, src_model[old])[:10]} ({sig_ctx})')
        # destination content
        dst.close()
        dst = Container(os.path.join(root, 'dst'))
        for key in wanted:
            data = src_model[key]
            dkey = digest(dhash, data)
            try:
                got = dst.get_object_content(dkey)
            except Exception as exc:  # pylint: disable=broad-except
                raise Violation(PROP, 'not-imported', f'requested {key[:10]} not readable in destination as {dkey[:10]}: {exc!r} ({sig_ctx})') from exc
            if got != data:
                raise Violation(PROP, 'imported-wrong-bytes', f'{dkey[:10]} reads {len(got)} bytes, expected {len(data)} ({sig_ctx})')
        for key, data in dst_model.items():
            if dst.get_object_content(key) != data:
                raise Violation(PROP, 'other-object-changed', f'pre-existing destination object {key[:10]} changed ({sig_ctx})')
        expect_keys = set(dst_model) | {digest(dhash, src_model[k]) for k in wanted}
        listing = set(dst.list_all_objects())
        if listing != expect_keys:
            raise Violation(PROP, 'extra-or-missing-keys', f'destination keys: {len(listing - expect_keys)} unexpected, {len(expect_keys - listing)} missing ({sig_ctx})')
        # raw state
        after = RawState(os.path.join(root, 'dst'))
        problems = check_consistency(after)
        if problems:
            raise Violation(PROP, f'raw:{problems[0][0]}', f'{problems[0][1]} ({sig_ctx})')
        after_rows = {r.hashkey: r for r in after.rows}
        for key, row in before_rows.items():
            if after_rows.get(key) != row:
                raise Violation(PROP, 'old-row-touched', f'row of {key[:10]} changed from {row} to {after_rows.get(key)} ({sig_ctx})')
        for name, blob in before_pack_bytes.items():
            if after.pack_bytes(name)[: len(blob)] != blob:
                raise Violation(PROP, 'old-pack-bytes-changed', f'pack {name} content changed below its previous size ({sig_ctx})')
        new_rows = [r for k, r in after_rows.items() if k not in before_rows]
        growth = sum(after.pack_sizes.values()) - sum(before.pack_sizes.values())
        if growth != sum(r.length for r in new_rows):
            raise Violation(
                PROP,
                'pack-growth',
                f'packs grew by {growth} bytes but the {len(new_rows)} new rows occupy {sum(r.length for r in new_rows)} ({sig_ctx})',
            )
        present_before = set(before_rows) | set(before.loose_paths)
        if case['same_hash']:
            for row in new_rows:
                if row.hashkey in present_before:
                    raise Violation(PROP, 'rewritten-same-hash', f'{row.hashkey[:10]} was already in the destination but was written again ({sig_ctx})')
            if set(after.loose_paths) != set(before.loose_paths):
                raise Violation(PROP, 'loose-changed', f'import changed the set of loose files ({sig_ctx})')
            transferred = {digest(dhash, src_model[k]) for k in wanted} - present_before
            if {r.hashkey for r in new_rows} != transferred:
                raise Violation(PROP, 'new-rows-set', f'new rows {len(new_rows)} vs genuinely new objects {len(transferred)} ({sig_ctx})')
        else:
            transferred = {r.hashkey for r in new_rows}
        if callback is not None:
            problem = callback.well_formed()
            if problem:
                raise Violation(PROP, 'callback-protocol', f'{problem}: {callback.events[:8]} ({sig_ctx})')
        vres = dst.validate()
        if not vres.is_valid():
            raise Violation(PROP, 'validate', f'destination invalid after import: {vres} ({sig_ctx})')
    finally:
        src.close()
        dst.close()
        rm_dir(root)
    already = {digest(dhash, src_model[k]) for k in wanted} & (set(dst_model))
    tsizes = [len(src_model[k]) for k in wanted if digest(dhash, src_model[k]) in transferred]
    both_sides = any(s > budget for s in tsizes) and any(s <= budget for s in tsizes)
    nontrivial = bool(transferred) and (bool(already) or both_sides)
    labels = (['lowered-thresholds'] if case.get('lowered') else []) + [
        'same-hash' if case['same_hash'] else 'different-hash',
        f'iterable:{("list", "tuple", "set", "generator")[kind]}',
        f'budget:{("1", "median", "huge")[case["budget"]]}',
        'callback' if case['callback'] else 'no-callback',
    ]
    if transferred:
        labels.append('transferred')
    if already:
        labels.append('some-already-present')
    if both_sides:
        labels.append('sizes-both-sides-of-budget')
    if any(s > budget for s in tsizes):
        labels.append('branch:stream-directly')
    if len(after.pack_names) > 1:
        labels.append('multi-pack-destination')
    if len(request) != len(set(request)):
        labels.append('repeated-request')
    fp = [src_cfg['hash_type'], dst_cfg, kind, case['compress'], case['budget'], case['callback'], sorted(tsizes), len(already), case['src'], case['dst']]
    sample = {'src_hash': src_cfg['hash_type'], 'dst_cfg': dst_cfg, 'iterable': kind, 'budget': budget, 'callback': case['callback'],
              'n_requested': len(request), 'n_transferred': len(transferred), 'n_already': len(already), 'sizes': sorted(tsizes)}
    return nontrivial, fp, sample, labels


def run_shard(ctx):
    n = 200 if ctx.tier == 'quick' else 20000
    ctx.set_budget(70 if ctx.tier == 'quick' else 1100)
    explore(ctx, strategy(), run_case, n)


def replay(case):
    run_case(case)
