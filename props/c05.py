"""C05 - a process crash at any point never loses or tears an object."""

import os

from vlib.common import HarnessError, Violation
from vlib.runner import explore

from . import _crash as cr

PROP = 'C05'
LEVEL = 'fault_enumeration'
RULE = (
    'Hypothesis generates (pre-state, operation) pairs: pre-state = short generated history (loose, packed plain/compressed, '
    'both, several packs with small pack_size_target, deletions) with all handles closed; operation with generated parameters '
    'out of add_object/add_streamed_object (new, duplicate, over a damaged loose copy), direct-to-pack (4 APIs x compress x '
    'no_holes x read_twice), pack_all_loose (mode x clean_loose_per_pack x validate x do_fsync), clean_storage(vacuum), '
    'delete_objects, repack(mode), repack_pack, import_objects, loosen_object, seeking read that re-loosens. The '
    'state-changing events are (raw write(2) of the buffered file, truncate, fsync, rename/replace/'
    'link/unlink/mkdir, open-for-write, SQL statement, SQL commit); the operation is run ONCE under the I/O shim, which '
    'photographs the container folder immediately before EVERY state-changing event k (and once after the call returned): '
    'since a kill only loses user-space state (Python buffers, uncommitted SQLite pages) that never reached the files, each '
    'photograph is exactly what os._exit() before event k leaves behind; for every raw write a second image gets half of the '
    'buffer appended (torn write). At generated points per pair the operation is ALSO re-run in a forked child that really '
    'os._exit()s before event k, and the resulting tree must be identical to the photograph. Oracle on each image: raw reader '
    '(sqlite3+slices+zlib): every pre-state object not targeted by a deletion still present, every visible key (loose file, '
    'index row) carries exactly the bytes of its digest, no foreign key; fresh handle: right bytes, or NotExistent only for '
    'objects being added/deleted, or a loud failure only while the index points at repack pack -1 - never wrong bytes. The '
    'unkilled run must leave exactly model+effect. Non-trivial = kill strictly inside the operation (k >= 1, i.e. after a '
    'state-changing event); distinct by (operation parameters, k, event kind).'
)
ASSUMPTIONS = [
    'SQLite crash-atomicity of a committed/uncommitted transaction is trusted (kill points are Python-visible I/O events)',
    'disk state only changes at the traced events, so killing between them adds no new state',
    'a process kill loses user-space buffers but nothing the kernel already accepted',
]
MAX_SHARDS = 16
POINT_LIMIT = 400


def run_pair(case, ctx=None, crosscheck=0):
    prep = cr.Prepared(case, PROP)
    labels = []
    try:
        if prep.rop is None:
            return False, ['skip'], None, ['pair-skipped']
        points, images = cr.snapshot_run(prep, cr.MUTATING_KINDS, 'kill')
        desc = prep.describe()
        labels.append(f'op:{desc["op"]}')
        labels += [f'warm-up:{cr.WARM_UPS[p % 8]}' for p in desc.get('prelude', [])]
        labels.append('pair-exhaustive')
        for k, variant, folder in images:
            context = (
                f'{desc} killed before event {k}/{len(points)} {points[k][1]}{" (torn write)" if variant == "torn" else ""}; '
                f'previous event: {points[k - 1][1] if k else "-"}'
            )
            cr.inspect_state(folder, PROP, prep.model, prep.candidates, prep.deleted, prep.planted, context=context)
            if ctx is not None:
                ctx.stats.label(f'kill-before:{points[k][0]}' + (':torn' if variant == 'torn' else ''))
                ctx.stats.record(
                    k >= 1, [desc, k, points[k][0], variant, len(points)],
                    {'operation': desc, 'events': len(points), 'killed_before': k, 'event': points[k][1], 'variant': variant},
                )
        # cross-check of the snapshot technique against real kills (fork + os._exit) at a few generated points
        for j in range(crosscheck):
            real_points = len(points) - 1  # the last entry is the pseudo-point 'operation returned'
            k = (case['op']['a'] * 7 + j * 13) % real_points if real_points > 0 else None
            if k is None:
                break
            cr.copy_state(prep.master, prep.work)
            code, report = cr.run_in_child(
                prep.work, prep.case, prep.model, prep.aux_model, prep.rop,
                lambda root, rp, k=k: cr.KillAt(cr.MUTATING_KINDS, root, k, report=rp),
            )
            if code != cr.KILL_EXIT or report is None or report.get('kind') != points[k][0]:
                raise HarnessError(f'real kill diverged from the photographed run at k={k}: exit {code}, report {report}, expected {points[k]}')
            context = f'{desc} REALLY killed (fork+_exit) before event {k}/{len(points)} {points[k][1]}'
            cr.inspect_state(prep.work, PROP, prep.model, prep.candidates, prep.deleted, prep.planted, context=context)
            if not same_tree(os.path.join(prep.work, 'c'), os.path.join(prep.root, 'snaps', f'k{k}', 'c')):
                raise HarnessError(f'photographed image and real kill image differ at k={k} ({points[k]}) for {desc}')
            if ctx is not None:
                ctx.stats.label('crosscheck-real-kill')
        return True, [desc, len(points)], None, labels
    finally:
        prep.close()


def same_tree(left, right):
    """Same directory structure and same file contents, ignoring the SQLite side files and sandbox file names."""
    import filecmp  # pylint: disable=import-outside-toplevel

    def listing(root):
        out = {}
        for dirpath, _, files in os.walk(root):
            rel = os.path.relpath(dirpath, root)
            for name in files:
                if name in ('packs.idx-shm', 'packs.idx-wal', 'packs.idx'):
                    continue
                with open(os.path.join(dirpath, name), 'rb') as fhandle:
                    data = fhandle.read()
                key = (rel, name) if rel != 'sandbox' else (rel, '*')
                out.setdefault(key, []).append(data)
        return {k: sorted(v) for k, v in out.items()}

    del filecmp
    from vlib.rawread import read_rows  # pylint: disable=import-outside-toplevel

    return listing(left) == listing(right) and read_rows(left) == read_rows(right)


def run_shard(ctx):
    quick = ctx.tier == 'quick'
    ctx.set_budget(75 if quick else 1100)

    def run_one(case):
        _, fp, _, labels = run_pair(case, ctx, crosscheck=1 if quick else 3)
        for label in labels:
            ctx.stats.label(label)
        # the per-kill-point records were made inside run_pair; count the pair itself as trivial bookkeeping only
        return False, fp, None, []

    before = ctx.stats.evaluations
    if ctx.shard == 0:
        # completeness self-test of the I/O shim against strace (see vlib/stracecheck.py)
        from vlib import stracecheck

        result = stracecheck.run()
        ctx.stats.label(f'shim-selftest-vs-strace:{result["status"]}')
        ctx.stats.extra['shim_selftest'] = {k: v for k, v in result.items() if k != 'why'}
        if result['status'] == 'mismatch':
            raise HarnessError(f'the library performs I/O on the container that the shim does not see: {result}')
    explore(ctx, cr.strategy(), run_one, 60 if quick else 8000)
    # `explore` counts one evaluation per pair on top of the kill points: keep only kill points in `evaluations`
    ctx.stats.extra['pairs'] = ctx.stats.hist.get('pair-exhaustive', 0)
    ctx.stats.extra['every_event_of_every_pair_used'] = True
    ctx.stats.evaluations -= ctx.stats.extra['pairs'] + ctx.stats.hist.get('pair-skipped', 0)
    ctx.stats.exhaustive = None
    del before


def replay(case):
    run_pair(case)
