"""C08 - a long-open handle sees everything acknowledged through other handles."""

import io
import os

from hypothesis import strategies as st

from vlib import gen
from vlib.common import LOWERED_CHOICES, Violation, absent_key, config_kwargs, container_class, content_of, digest, new_dir, rm_dir, short
from vlib.interp import MODES_PACK, _mode
from vlib.runner import ddmin_ops, explore

PROP = 'C08'
LEVEL = 'exploration'
RULE = (
    'Hypothesis-generated sequential histories over k in 2..4 handles opened on one folder (handle 0 is the packer): '
    'add_object / add_streamed_object through any handle, pack_all_loose(any mode, clean_loose_per_pack, validate_objects) '
    'and clean_storage() through the packer, close+reopen of any handle, and QUERY steps through any handle: has_objects(S), '
    'get_object_content(x), get_objects_content(S), get_objects_meta(S), get_object_stream + seek/read, list_all_objects(), '
    'with S a generated mix of present and absent keys (an absent key triggers the session refresh, a present one does not - '
    'both pin or release WAL snapshots). Queries are steps, not a global invariant, so "whatever it queried before" is '
    'explored. Oracle: every query answer equals the dict model at that moment (operations are sequential, the model is '
    'unambiguous). Non-trivial = a query through handle h such that h ran an index query earlier and another handle '
    'committed a pack (and possibly cleaned) in between; distinct by (op/handle sequence, query kinds).'
)
ASSUMPTIONS = [
    'operations are issued one at a time (no overlap); only handle 0 packs and cleans',
    'count_objects / get_total_size are not among the views the property names and are not judged on stale handles',
]

KINDS = gen.weighted({'add': 8, 'pack': 5, 'clean': 3, 'query': 12, 'reopen': 1})
QUERIES = ('has', 'get', 'bulk', 'meta', 'stream', 'list', 'bulkseek')


def strategy(tier):
    op = st.fixed_dictionaries(
        {
            'k': st.sampled_from(KINDS),
            'h': st.integers(0, 3),
            'a': st.integers(0, 255),
            'b': st.integers(0, 255),
            'f': st.integers(0, 31),
            'n': st.lists(st.integers(0, 255), max_size=5),
        }
    )
    hi = 30 if tier == 'quick' else 60
    return st.fixed_dictionaries(
        {
            'cfg': gen.config(targets=(64, 1000, 4 * 1024**3)),
            'pool': st.lists(gen.content_desc(3000, 0), min_size=1, max_size=8),
            'nhandles': st.integers(2, 4),
            'lowered': st.sampled_from(list(LOWERED_CHOICES)),
            'ops': st.integers(4, hi).flatmap(lambda n: st.lists(op, min_size=n, max_size=n)),
        }
    )


def run_case(case, observer=None):  # pylint: disable=too-many-locals,too-many-branches,too-many-statements
    Container = container_class(case.get('lowered'))
    from disk_objectstore.container import ObjectType
    from disk_objectstore.exceptions import NotExistent

    cfg = case['cfg']
    hash_type = cfg['hash_type']
    pool = [content_of(d) for d in case['pool']]
    root = new_dir('c08')
    path = os.path.join(root, 'c')
    first = Container(path)
    first.init_container(**config_kwargs(cfg))
    handles = [first] + [Container(path) for _ in range(case['nhandles'] - 1)]
    model = {}
    log = []
    queried = [False] * len(handles)  # handle ran an index query since it was (re)opened
    stale = [False] * len(handles)  # ... and another handle committed a pack since that query
    labels = set()
    step = 0

    def viol(sig, msg):
        exc = Violation(PROP, sig, f'step {step}: {msg}; history: {log}')
        exc.log = log
        return exc

    state = {'nontrivial': 0}

    def run_op(op):
        nonlocal step
        kind = op['k']
        hidx = op['h'] % len(handles)
        cont = handles[hidx]
        if kind == 'add':
            data = pool[op['a'] % len(pool)]
            key = cont.add_object(data) if op['f'] & 1 else cont.add_streamed_object(io.BytesIO(data))
            if key != digest(hash_type, data):
                raise viol('wrong-key', f'add through handle {hidx} returned {key}')
            model[key] = data
            log.append(f'h{hidx}.add({key[:6]})')
        elif kind == 'pack':
            mode = MODES_PACK[op['b'] % len(MODES_PACK)]
            handles[0].pack_all_loose(compress=_mode(mode), clean_loose_per_pack=bool(op['f'] & 1), validate_objects=not op['f'] & 2)
            log.append(f'h0.pack({mode},clean_per_pack={bool(op["f"] & 1)})')
            queried[0] = True
            for i in range(1, len(handles)):
                if queried[i]:
                    stale[i] = True
        elif kind == 'clean':
            handles[0].clean_storage()
            log.append('h0.clean()')
            queried[0] = True
            stale[0] = False
        elif kind == 'reopen':
            cont.close()
            handles[hidx] = Container(path)
            queried[hidx] = stale[hidx] = False
            log.append(f'h{hidx}.reopen()')
        else:
            qkind = QUERIES[op['b'] % len(QUERIES)]
            keys = sorted(model)
            sels = op['n'] or [op['a']]
            request = []
            for sel in sels:
                if sel % 3 == 0 or not keys:
                    request.append(absent_key(hash_type, sel // 3 % 4))
                else:
                    request.append(keys[(sel // 3) % len(keys)])
            if stale[hidx]:
                state['nontrivial'] += 1
                labels.add(f'stale-query:{qkind}')
            tag = f'h{hidx}.{qkind}'
            if qkind == 'has':
                got = cont.has_objects(request)
                want = [k in model for k in request]
                log.append(f'{tag}({[k[:6] for k in request]})')
                if got != want:
                    raise viol(f'stale:{qkind}', f'{tag} returned {got}, model says {want}')
            elif qkind == 'get':
                key = request[0]
                log.append(f'{tag}({key[:6]})')
                try:
                    got = cont.get_object_content(key)
                except NotExistent:
                    got = None
                if got != model.get(key):
                    raise viol(f'stale:{qkind}', f'{tag}({key[:6]}) returned {None if got is None else short(got)}, model has {key in model}')
            elif qkind == 'bulk':
                skip = bool(op['f'] & 1)
                log.append(f'{tag}({[k[:6] for k in request]},skip={skip})')
                got = cont.get_objects_content(request, skip_if_missing=skip)
                want = {k: model[k] for k in request if k in model}
                if not skip:
                    want.update({k: None for k in request if k not in model})
                if got != want:
                    raise viol(f'stale:{qkind}', f'{tag} returned keys {sorted(k[:6] for k, v in got.items() if v is not None)}, model {sorted(k[:6] for k in want if want[k] is not None)}')
            elif qkind == 'meta':
                log.append(f'{tag}({[k[:6] for k in request]})')
                got = {k: (m.type != ObjectType.MISSING, m.size) for k, m in cont.get_objects_meta(request, skip_if_missing=False)}
                want = {k: (k in model, len(model[k]) if k in model else None) for k in request}
                if got != want:
                    raise viol(f'stale:{qkind}', f'{tag} returned {got}, model says {want}')
            elif qkind == 'stream':
                key = request[0]
                log.append(f'{tag}({key[:6]})')
                try:
                    with cont.get_object_stream(key) as stream:
                        data = model.get(key)
                        if data is None:
                            raise viol(f'stale:{qkind}', f'{tag} opened a stream for an absent key')
                        head = stream.read(2)
                        back = min(len(data), 1 + op['f'] % 5)
                        stream.seek(-back, 2)
                        tail = stream.read()
                        if head != data[:2] or tail != data[len(data) - back :]:
                            raise viol(f'stale:{qkind}', f'{tag} read wrong bytes')
                except NotExistent:
                    if key in model:
                        raise viol(f'stale:{qkind}', f'{tag}({key[:6]}) raised NotExistent for an acknowledged object') from None
            elif qkind == 'bulkseek':
                log.append(f'{tag}({[k[:6] for k in request]})')
                seen = {}
                # optionally ANOTHER handle packs (and cleans) between two yields of this iteration: the rest of the iteration is
                # served by the reader's fall-back loop (the library's own tests do the same in test_simulate_concurrent_packing)
                midpack = bool(op['f'] & 8) and hidx != 0
                yielded = 0
                stream = None
                with cont.get_objects_stream_and_meta(request, skip_if_missing=False) as triplets:
                    for key, stream, meta in triplets:
                        yielded += 1
                        if midpack and yielded == 2:
                            mode = MODES_PACK[op['a'] % len(MODES_PACK)]
                            handles[0].pack_all_loose(compress=_mode(mode))
                            handles[0].clean_storage()
                            log.append(f'  [between yields] h0.pack({mode}); h0.clean()')
                            labels.add('pack-between-yields')
                            queried[0] = True
                            stale[0] = False
                            for i in range(1, len(handles)):
                                if queried[i]:
                                    stale[i] = True
                        if observer is not None:
                            observer('triplet', root, len(handles), log)
                        if stream is None:
                            seen[key] = None
                            continue
                        data = model.get(key, b'')
                        stream.read(1)
                        back = min(len(data), 1 + op['f'] % 4)
                        stream.seek(-back, 2)
                        tail = stream.read()
                        stream.seek(0)
                        seen[key] = (stream.read(), tail, meta.size)
                if observer is not None:
                    # the iteration is over and its context left, the last stream is still referenced by this frame
                    observer('after-bulk', root, len(handles), log)
                del stream
                want = {k: ((model[k], model[k][len(model[k]) - min(len(model[k]), 1 + op['f'] % 4) :], len(model[k])) if k in model else None) for k in set(request)}
                if seen != want:
                    bad = [k[:6] for k in want if seen.get(k, 'absent') != want[k]]
                    raise viol(f'stale:{qkind}', f'{tag}: seeking reads inside the bulk iteration disagree with the model for {bad}')
            else:
                log.append(f'{tag}()')
                got = list(cont.list_all_objects())
                if len(got) != len(set(got)):
                    raise viol('list-dup', f'{tag} yields a key twice')
                if set(got) != set(model):
                    raise viol(
                        f'stale:{qkind}',
                        f'{tag} misses {sorted(k[:6] for k in set(model) - set(got))} and invents {sorted(k[:6] for k in set(got) - set(model))}',
                    )
            queried[hidx] = True

    try:
        for op in case['ops']:
            step += 1
            try:
                run_op(op)
            except Violation:
                raise
            except Exception as exc:  # pylint: disable=broad-except
                from vlib.interp import library_frame, raised_in_library

                if raised_in_library(exc):
                    raise viol(f'op-raised:{op["k"]}:{type(exc).__name__}', f'{op["k"]} through a valid handle raised {exc!r} ({library_frame(exc)})') from exc
                raise
            if observer is not None:
                observer('after-op', root, len(handles), log)
        for handle in handles:
            handle.close()
        if observer is not None:
            observer('closed', root, len(handles), log)
    finally:
        for handle in handles:
            handle.close()
        rm_dir(root)
    fp = [case['nhandles'], [(o['k'], o['h'] % case['nhandles'], o['b'] % 6 if o['k'] == 'query' else 0) for o in case['ops']]]
    sample = {'nhandles': case['nhandles'], 'history': log[:30], 'queries_on_stale_handle': state['nontrivial']}
    return state['nontrivial'] > 0, fp, sample, ['history'] + sorted(labels)


def shrink(case, exc):
    return ddmin_ops(case, exc, run_case)


def run_shard(ctx):
    n = 150 if ctx.tier == 'quick' else 16000
    ctx.set_budget(70 if ctx.tier == 'quick' else 1100)
    explore(ctx, strategy(ctx.tier), run_case, n, shrink=shrink)


def replay(case):
    run_case(case)
