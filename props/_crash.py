"""Shared driver for C05 (kill), C06 (power loss) and C17 (I/O fault): generated (pre-state, operation) pairs x every event."""

from __future__ import annotations

import os

from hypothesis import strategies as st

from vlib import gen
from vlib.common import HarnessError, Violation, new_dir, rm_dir
from vlib.crash import (
    KILL_EXIT,
    WARM_UPS,
    FaultAt,
    KillAt,
    PointCounter,
    PowerLossAt,
    copy_state,
    expected_effect,
    inspect_state,
    remove_stale_locks,
    run_in_child,
)
from vlib.interp import World
from vlib.shim import MUTATING_KINDS

PRE_WEIGHTS = {'add': 8, 'addpack': 6, 'pack': 3, 'clean': 1, 'delete': 1, 'aux_add': 3, 'loosen': 1}
OP_KINDS = gen.weighted(
    {'add': 3, 'addpack': 10, 'pack': 8, 'clean': 3, 'delete': 3, 'repack': 5, 'repack_pack': 2, 'import': 10, 'loosen': 1,
     'seekread': 2, 'add_over_damaged': 2}
)


def strategy(max_pre=10, force_fsync=False):
    op = gen.op(OP_KINDS)
    if force_fsync:
        # default fsync settings only: clear the do_fsync=False bits used by the interpreter
        masks = {'addpack': 16, 'pack': 8, 'import': 4}
        op = op.map(lambda o: dict(o, f=o['f'] & ~masks.get(o['k'], 0)))
    return st.fixed_dictionaries(
        {
            'cfg': gen.config(targets=(1, 64, 1000, 4 * 1024**3, 4 * 1024**3, 100000)),
            'aux_cfg': gen.config(targets=(64, 4 * 1024**3)),
            'pool': st.lists(gen.content_desc(6000, 1), min_size=2, max_size=6),
            'ops': st.integers(2, max_pre).flatmap(lambda n: st.lists(gen.op(gen.weighted(PRE_WEIGHTS)), min_size=n, max_size=n)),
            'op': op,
        }
    )


def fsync_safe(rop):
    """C06 speaks about the default fsync settings."""
    return rop.get('do_fsync', True)


class Prepared:
    """A generated pre-state (master copy on disk) and a resolved operation."""

    def __init__(self, case, prop):
        self.case = case
        self.prop = prop
        self.root = new_dir('crash')
        self.master = os.path.join(self.root, 'master')
        self.work = os.path.join(self.root, 'work')
        os.makedirs(self.master)
        world = World(self.master, case, prop=prop)
        try:
            for op in case['ops']:
                world.apply(op)
            op = case['op']
            if op['k'] == 'import' and op['b'] % 2:
                # an import that moves several objects (several cache flushes, pack roll-overs): top the source container up
                for extra in range(3):
                    world.apply({'k': 'aux_add', 'a': op['a'] + 1 + extra, 'b': 0, 'f': extra, 'n': []})
                op = dict(op, n=list(op['n']) + [1 + 4 * i for i in range(5)])
                if op['a'] % 4:  # mostly with a memory budget that holds a few objects, so that the cache is flushed midway
                    op = dict(op, b=op['b'] if op['b'] % 3 else op['b'] + 1, f=op['f'] | (8 if op['a'] % 2 else 0))
            self.model = dict(world.model)
            self.aux_model = dict(world.aux_model)
            self.planted = {}
            if op['k'] == 'add_over_damaged':
                self.rop = self._plant_damage(world, op)
            else:
                self.rop = getattr(world, 'r_' + op['k'])(op)
                if self.rop is not None:
                    self.rop['op'] = op['k']
                    self.rop['prop_id'] = prop
                    # what the same handle did before (see vlib.crash.warm_up); `repack` may remove the pack a repack_pack names
                    prelude = [(op['b'] // 7) % 12, (op['b'] // 84) % 12][: 1 + op['b'] % 2]
                    if op['k'] == 'repack_pack':
                        prelude = [p for p in prelude if p != 1]
                    self.rop['prelude'] = [p for p in prelude if 0 < p < 8]
        finally:
            world.close()
        if self.rop is not None:
            self.candidates, self.deleted = expected_effect(self.rop, self.model, self.aux_model, case['cfg']['hash_type'])

    def _plant_damage(self, world, op):
        raw = world.raw()
        loose = sorted(set(raw.loose_paths) & set(world.model))
        if not loose:
            return None
        key = loose[op['a'] % len(loose)]
        data = world.model[key]
        variants = [b'garbage' + data[:5], data[: len(data) // 2] if data else b'x', data + b'\x00']
        if data:
            variants.append(data[:-1] + bytes([data[-1] ^ 0xFF]))  # same size
        damaged = variants[op['f'] % len(variants)]
        with open(raw.loose_paths[key], 'wb') as fhandle:
            fhandle.write(damaged)
        self.planted[key] = damaged
        return {'op': 'add_over_damaged', 'key': key, 'data': data, 'via': op['b'] % 2}

    def describe(self):
        rop = self.rop
        out = {'op': rop['op']}
        for name in ('prelude', 'mode', 'compress', 'no_holes', 'read_twice', 'clean_loose_per_pack', 'validate_objects', 'do_fsync', 'api',
                     'vacuum', 'pack', 'iterable', 'budget', 'via', 'callback'):
            if name in rop:
                out[name] = rop[name]
        if 'keys' in rop:
            out['nkeys'] = len(rop['keys'])
        return out

    def close(self):
        rm_dir(self.root)


def x_add_over_damaged(self, rop):
    import io  # pylint: disable=import-outside-toplevel

    got = self.c.add_object(rop['data']) if rop['via'] == 0 else self.c.add_streamed_object(io.BytesIO(rop['data']))
    if got != rop['key']:
        raise self.viol('wrong-key:readd', f're-adding over damaged {rop["key"][:10]} returned {got}')
    return got


World.x_add_over_damaged = x_add_over_damaged


def snapshot_run(prep: Prepared, kinds, mode, trace_reads=False):
    """Run the operation once, unkilled, photographing the container before every counted event.

    Returns (points, images) with images = [(k, variant, folder)]. The final state must be the complete effect."""
    from vlib.crash import Snapshotter, run_in_process  # pylint: disable=import-outside-toplevel

    copy_state(prep.master, prep.work)
    snapdir = os.path.join(prep.root, 'snaps')
    rm_dir(snapdir)
    os.makedirs(snapdir)
    consumer = Snapshotter(kinds, os.path.realpath(os.path.join(prep.work, 'c')) + os.sep, snapdir, mode=mode)
    report = run_in_process(prep.work, prep.case, prep.model, prep.aux_model, prep.rop, consumer, trace_reads=trace_reads)
    ctxt = f'unfaulted {prep.describe()}'
    if report['status'] == 'violation':
        raise Violation(prep.prop, 'unfaulted:' + report['sig'], report['msg'] + f' [{ctxt}]')
    if report['status'] == 'raised':
        raise Violation(prep.prop, f'unfaulted-raised:{prep.rop["op"]}:{report["type"]}', f'{report["repr"]} [{ctxt}]')
    inspect_state(prep.work, prep.prop, prep.model, prep.candidates, prep.deleted, prep.planted, context=ctxt, complete=True)
    return report['points'], consumer.images


def counting_run(prep: Prepared, kinds, trace_reads=False, forked=True):
    """Run the operation unfaulted (in a forked child); returns the list of fault points."""
    copy_state(prep.master, prep.work)
    code, report = run_in_child(
        prep.work, prep.case, prep.model, prep.aux_model, prep.rop, lambda root, rp: PointCounter(kinds, root), trace_reads=trace_reads
    )
    if code != 0 or report is None:
        raise HarnessError(f'counting run failed: {code} {report}')
    ctxt = f'unfaulted {prep.describe()}'
    if report['status'] == 'violation':
        raise Violation(prep.prop, 'unfaulted:' + report['sig'], report['msg'] + f' [{ctxt}]')
    if report['status'] == 'raised':
        raise Violation(prep.prop, f'unfaulted-raised:{prep.rop["op"]}:{report["type"]}', f'{report["repr"]} [{ctxt}]')
    inspect_state(prep.work, prep.prop, prep.model, prep.candidates, prep.deleted, prep.planted, context=ctxt, complete=True)
    return report['points']


def select_points(points, limit, pick):
    """All points when few; otherwise all of the rarer kinds plus a generated sample of the rest."""
    n = len(points)
    if n <= limit:
        return list(range(n)), True
    chosen = {0, n - 1}
    seen_kinds = {}
    for index, (kind, _) in enumerate(points):
        seen_kinds.setdefault(kind, []).append(index)
    for kind, indices in seen_kinds.items():
        step = max(1, len(indices) * len(seen_kinds) // limit)
        chosen.update(indices[:: step + pick % 2])
    return sorted(chosen)[: limit + 50], False


__all__ = ['KILL_EXIT', 'WARM_UPS', 'FaultAt', 'KillAt', 'PowerLossAt', 'MUTATING_KINDS', 'Prepared', 'counting_run', 'copy_state', 'fsync_safe',
           'inspect_state', 'remove_stale_locks', 'run_in_child', 'select_points', 'snapshot_run', 'strategy']
