"""C02 - any history of operations is equivalent to a key->bytes map."""

from vlib import gen
from vlib.checkers import ViewsChecker

from ._hist import replay_history, run_histories

PROP = 'C02'
LEVEL = 'exploration'
RULE = (
    'Hypothesis-generated operation histories (add loose via bytes/BytesIO/file/short-read stream, direct-to-pack through all '
    'four APIs x compress x no_holes x read_twice x callback x do_fsync, pack_all_loose with every mode/flag, clean_storage '
    '(vacuum), repack / repack_pack with every mode, delete_objects over present+absent+repeated keys, loosen_object, seeking '
    'read (re-loosens compressed objects), import_objects from an auxiliary container of independent hash type, close+reopen, '
    'refused init_container) from an empty container of a generated configuration, interpreted next to a dict model; after '
    'EVERY step has_objects, get_object_content (NotExistent for absent), get_objects_content (skip and no-skip), '
    'get_objects_meta, list_all_objects (duplicate-free, equal to key set) and count_objects (vs raw reader) must equal the '
    'model. Non-trivial = history with a maintenance op (pack/clean/repack) executed after a delete or duplicate add, or with '
    'a reopen; distinct by (config, op kinds, flags, parameter signature).'
)
ASSUMPTIONS = [
    'single client issuing operations sequentially (maintenance operations are documented as exclusive)',
    'do_commit=False is not generated (its contract requires a manual commit)',
    'history length <= 40 (quick) / 80 (thorough) operations, <= 8 distinct contents of <= 140 KB',
]

WEIGHTS = {
    'add': 8,
    'addpack': 8,
    'pack': 6,
    'clean': 4,
    'repack': 3,
    'repack_pack': 2,
    'delete': 5,
    'loosen': 2,
    'seekread': 2,
    'aux_add': 3,
    'import': 3,
    'reopen': 3,
    'reinit': 1,
    'addpack_off': 2,
    'addfail': 2,
    'nested': 2,
    'stale_lock': 1,
}


def strategy(tier='quick'):
    return gen.history_case(WEIGHTS, min_ops=2, max_ops=40 if tier == 'quick' else 80, max_size=140000, boundary_weight=1)


def checkers():
    return [ViewsChecker()]


def nontrivial(world):
    return 'maint-after-mutation' in world.flags or 'reopened' in world.flags


def run_shard(ctx):
    n = 45 if ctx.tier == 'quick' else 3200
    ctx.set_budget(80 if ctx.tier == 'quick' else 1100)
    run_histories(ctx, PROP, strategy(ctx.tier), checkers, nontrivial, n)


def replay(case):
    replay_history(case, PROP, checkers)
