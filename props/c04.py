"""C04 - readers and loose writers are never disturbed by a concurrent packer."""

import io
import os

from hypothesis import strategies as st

from vlib import gen
from vlib.common import LOWERED_CHOICES, HarnessError, Violation, absent_key, config_kwargs, container_class, content_of, digest, new_dir, rm_dir, short
from vlib.interp import MODES_PACK, _mode
from vlib.rawread import RawState, check_consistency
from vlib.runner import explore
from vlib.sched import Scheduler
from vlib.shim import Shim

PROP = 'C04'
LEVEL = 'exploration'
RULE = (
    'Scenario = generated pre-state (objects loose, packed plain/compressed, both) + actors, each a thread with its OWN '
    'Container handle: 1-2 writers (each adds 1-3 contents, new or duplicates of loose/packed/being-added ones, via '
    'add_object or add_streamed_object), 1-2 readers (2-4 operations out of has_objects, get_object_content, '
    'get_objects_content, get_objects_meta, get_object_stream + seek/read - which re-loosens compressed objects -, with a '
    'fresh handle per operation or one long-open handle), one packer (pack_all_loose(mode, clean_loose_per_pack, '
    'validate_objects) then clean_storage()). The deterministic baton scheduler lets exactly one actor run and may switch at '
    'EVERY file-system call and SQL statement the library issues (I/O shim, reads included); the schedule is a Hypothesis '
    'value: a list of (actor choice, run length in events) with run lengths from {1,2,3,5,10,30,inf}. Oracle: acked = '
    'pre-state keys + keys whose add has returned; at the start of each reader operation must_see = acked is frozen; on '
    'completion every key of must_see must be reported present with exactly its bytes/size (keys outside must_see may be '
    'absent or exact, never partial or foreign); every add returns the digest of its content; no actor may raise; at the '
    'end raw reader + fresh handle agree with acked and validate() is clean. Non-trivial = schedule in which a reader '
    'operation has a packer commit or unlink strictly between two of its own events, or a writer rename falls between the '
    "packer's loose listing and its commit; distinct by (scenario shape, interleaving signature)."
)
ASSUMPTIONS = [
    'pre-emption only at Python-visible I/O calls and whole SQL statements (SQLite page I/O is atomic to the harness)',
    'one process, threads under a baton: no true parallelism; each actor has its own SQLite connection as separate processes would',
    'a single packer; VACUUM is not part of the packer of this property',
]
MAX_SHARDS = 16
RUNS = (1, 1, 2, 3, 5, 10, 30, 10**9)
QKINDS = ('has', 'get', 'bulk', 'meta', 'stream', 'bulkseek')


def strategy():
    add = st.tuples(st.integers(0, 7), st.booleans())
    rop = st.tuples(st.sampled_from(QKINDS), st.lists(st.integers(0, 63), min_size=1, max_size=4), st.integers(0, 31))
    return st.fixed_dictionaries(
        {
            'cfg': gen.config(targets=(64, 64, 1000, 4 * 1024**3)),
            'pool': st.lists(gen.content_desc(2500, 0), min_size=3, max_size=8),
            'pre': st.lists(st.tuples(st.integers(0, 7), st.sampled_from([0, 0, 0, 1, 2, 3])), min_size=1, max_size=6),
            'writers': st.lists(st.lists(add, min_size=1, max_size=3), min_size=1, max_size=2),
            'readers': st.lists(
                st.fixed_dictionaries({'long': st.booleans(), 'ops': st.lists(rop, min_size=2, max_size=4)}), min_size=1, max_size=2
            ),
            'packer': st.fixed_dictionaries({'mode': st.integers(0, 5), 'clean_per_pack': st.booleans(), 'validate': st.booleans()}),
            'lowered': st.sampled_from(list(LOWERED_CHOICES)),
            'schedule': st.lists(st.tuples(st.integers(0, 7), st.sampled_from(RUNS)), min_size=0, max_size=40),
        }
    )


def run_case(case):  # pylint: disable=too-many-locals,too-many-statements,too-many-branches
    Container = container_class(case.get('lowered'))
    from disk_objectstore.container import ObjectType
    from disk_objectstore.exceptions import NotExistent

    cfg = case['cfg']
    hash_type = cfg['hash_type']
    pool = [content_of(d) for d in case['pool']]
    universe = {digest(hash_type, d): d for d in pool}
    root = new_dir('c04')
    path = os.path.join(root, 'c')
    setup = Container(path)
    setup.init_container(**config_kwargs(cfg))
    acked = {}
    for idx, form in case['pre']:
        data = pool[idx % len(pool)]
        if form in (0, 3):
            key = setup.add_object(data)
        if form in (1, 2, 3):
            key = setup.add_objects_to_pack([data], compress=form == 2)[0]
        acked[key] = data
    setup.close()
    sched = Scheduler(case['schedule'])
    problems = []
    ukeys = sorted(universe)

    def select(sels):
        out = []
        for sel in sels:
            out.append(absent_key(hash_type, sel // 5 % 3) if sel % 5 == 0 else ukeys[(sel // 5) % len(ukeys)])
        return out

    def writer(script):
        def body(actor):
            cont = Container(path)
            try:
                for idx, streamed in script:
                    data = pool[idx % len(pool)]
                    sched.mark(actor.name, 'op-start', 'add')
                    key = cont.add_streamed_object(io.BytesIO(data)) if streamed else cont.add_object(data)
                    if key != digest(hash_type, data):
                        problems.append(('wrong-key', f'{actor.name}: add returned {key}, digest is {digest(hash_type, data)}'))
                    acked[key] = data
                    sched.mark(actor.name, 'op-end', 'add')
            finally:
                cont.close()

        return body

    def reader(spec):
        def body(actor):
            cont = Container(path) if spec['long'] else None
            try:
                for qkind, sels, extra in spec['ops']:
                    handle = cont if cont is not None else Container(path)
                    request = select(sels)
                    must = dict(acked)
                    sched.mark(actor.name, 'op-start', qkind)
                    try:
                        check_query(actor.name, handle, qkind, request, extra, must)
                    finally:
                        sched.mark(actor.name, 'op-end', qkind)
                        if cont is None:
                            handle.close()
            finally:
                if cont is not None:
                    cont.close()

        return body

    def check_query(name, handle, qkind, request, extra, must):
        tag = f'{name}.{qkind}({[k[:6] for k in request]})'
        if qkind == 'has':
            got = handle.has_objects(request)
            for key, flag in zip(request, got):
                if key in must and not flag:
                    problems.append(('reader:missing', f'{tag}: acknowledged {key[:6]} reported missing'))
                if flag and key not in universe:
                    problems.append(('reader:phantom', f'{tag}: never-stored {key[:6]} reported present'))
        elif qkind == 'get':
            key = request[0]
            try:
                got = handle.get_object_content(key)
            except NotExistent:
                got = None
            if got is None and key in must:
                problems.append(('reader:missing', f'{tag}: NotExistent for acknowledged {key[:6]}'))
            if got is not None and got != universe.get(key):
                problems.append(('reader:wrong-bytes', f'{tag}: returned {short(got)} ({len(got)} bytes), content has {len(universe.get(key, b""))}'))
        elif qkind == 'bulk':
            got = handle.get_objects_content(request, skip_if_missing=bool(extra & 1))
            for key in set(request):
                value = got.get(key)
                if value is None and key in must:
                    problems.append(('reader:missing', f'{tag}: bulk read misses acknowledged {key[:6]}'))
                if value is not None and value != universe.get(key):
                    problems.append(('reader:wrong-bytes', f'{tag}: bulk read of {key[:6]} returned {short(value)}'))
        elif qkind == 'meta':
            got = dict(handle.get_objects_meta(request, skip_if_missing=False))
            for key in set(request):
                meta = got.get(key)
                present = meta is not None and meta.type != ObjectType.MISSING
                if not present and key in must:
                    problems.append(('reader:missing', f'{tag}: metadata reports acknowledged {key[:6]} missing'))
                if present and (key not in universe or meta.size != len(universe[key])):
                    problems.append(('reader:wrong-size', f'{tag}: metadata of {key[:6]} has size {meta.size}'))
        elif qkind == 'bulkseek':
            seen = set()
            with handle.get_objects_stream_and_meta(request, skip_if_missing=bool(extra & 1)) as triplets:
                for key, stream, meta in triplets:
                    seen.add(key)
                    data = universe.get(key)
                    if stream is None:
                        if key in must:
                            problems.append(('reader:missing', f'{tag}: bulk stream reports acknowledged {key[:6]} missing'))
                        continue
                    if data is None:
                        problems.append(('reader:phantom', f'{tag}: bulk stream yields never-stored {key[:6]}'))
                        continue
                    if meta.size != len(data):
                        problems.append(('reader:wrong-size', f'{tag}: bulk stream meta of {key[:6]} has size {meta.size}, content {len(data)}'))
                    head = stream.read(2)
                    back = min(len(data), 1 + extra % 5)
                    stream.seek(-back, 2)
                    tail = stream.read()
                    stream.seek(0)
                    whole = stream.read()
                    if head != data[:2] or tail != data[len(data) - back :] or whole != data:
                        problems.append(('reader:wrong-bytes', f'{tag}: seeking read inside the bulk iteration returned wrong bytes for {key[:6]} (whole read: {short(whole)})'))
            for key in set(request):
                if key in must and key not in seen:
                    problems.append(('reader:missing', f'{tag}: bulk stream skips acknowledged {key[:6]}'))
        else:
            key = request[0]
            data = universe.get(key)
            try:
                with handle.get_object_stream(key) as stream:
                    if data is None:
                        problems.append(('reader:phantom', f'{tag}: stream opened for a never-stored key'))
                        return
                    head = stream.read(3)
                    back = min(len(data), 1 + extra % 6)
                    pos = stream.seek(-back, 2)
                    tail = stream.read()
                    mid = stream.seek(len(data) // 2)
                    rest = stream.read(5)
                    if head != data[:3] or tail != data[len(data) - back :] or rest != data[len(data) // 2 : len(data) // 2 + 5]:
                        problems.append(('reader:wrong-bytes', f'{tag}: seeking read returned wrong bytes'))
                    if pos != len(data) - back or mid != len(data) // 2:
                        problems.append(('reader:wrong-pos', f'{tag}: seek returned {pos},{mid}'))
            except NotExistent:
                if key in must:
                    problems.append(('reader:missing', f'{tag}: NotExistent for acknowledged {key[:6]}'))

    def packer(actor):
        cont = Container(path)
        try:
            spec = case['packer']
            sched.mark(actor.name, 'op-start', 'pack')
            cont.pack_all_loose(
                compress=_mode(MODES_PACK[spec['mode'] % len(MODES_PACK)]), clean_loose_per_pack=spec['clean_per_pack'], validate_objects=spec['validate']
            )
            sched.mark(actor.name, 'op-end', 'pack')
            sched.mark(actor.name, 'op-start', 'clean')
            cont.clean_storage()
            sched.mark(actor.name, 'op-end', 'clean')
        finally:
            cont.close()

    for i, script in enumerate(case['writers']):
        sched.add_actor(f'w{i}', writer(script))
    for i, spec in enumerate(case['readers']):
        sched.add_actor(f'r{i}', reader(spec))
    sched.add_actor('packer', packer)
    if case.get('order'):
        sched.order.sort(key=lambda a: case['order'].index(a.name))
    shim = Shim(path, sched, trace_reads=True)
    try:
        shim.install()
        try:
            sched.run(shim)
        finally:
            shim.uninstall()
        trace = sched.trace
        summary = interleaving(trace)
        for actor in sched.order:
            if actor.error is not None:
                if isinstance(actor.error, HarnessError):
                    raise actor.error
                raise viol(f'actor-raised:{actor.name.rstrip("0123456789")}:{type(actor.error).__name__}',
                           f'{actor.name} raised {actor.error!r}\n{(actor.error_tb or "")[-700:]}', trace)
        if problems:
            sig, msg = problems[0]
            raise viol(sig, msg + f' (+{len(problems) - 1} more)', trace)
        # final state
        raw = RawState(path)
        bad = check_consistency(raw)
        if bad:
            raise viol(f'final-raw:{bad[0][0]}', bad[0][1], trace)
        if raw.keys() != set(acked):
            raise viol('final-keys', f'stored keys differ from acknowledged ones: missing {sorted(k[:6] for k in set(acked) - raw.keys())}', trace)
        fresh = Container(path)
        try:
            for key, data in acked.items():
                if fresh.get_object_content(key) != data:
                    raise viol('final-wrong-bytes', f'{key[:6]} reads wrong bytes at the end', trace)
            res = fresh.validate()
            if not res.is_valid():
                raise viol('final-validate', f'validate() reports {res}', trace)
        finally:
            fresh.close()
    finally:
        rm_dir(root)
    labels = ['schedule'] + [f'pattern:{name}' for name, count in summary.items() if count]
    labels.append(f'events:{min(len(trace) // 50 * 50, 300)}+')
    nontrivial = bool(summary['reader-op-spans-packer-commit'] or summary['reader-op-spans-packer-unlink'] or summary['writer-rename-inside-pack'])
    shape = [len(case['writers']), [r['long'] for r in case['readers']], case['packer']]
    fp = [shape, [(a, k) for a, k, _ in trace if k in ('sql-commit', 'unlink', 'rename', 'op-start')]]
    sample = {'actors': [a.name for a in sched.order], 'events': len(trace), 'switches': sched.switches, 'patterns': {k: v for k, v in summary.items() if v},
              'trace_excerpt': [f'{a}:{b}' for a, _, b in trace[:14]]}
    case['_events'] = {a.name: a.events for a in sched.order}
    case['_trace_sig'] = [(a, k) for a, k, _ in trace]
    return nontrivial, fp, sample, labels


def viol(sig, msg, trace):
    exc = Violation(PROP, sig, msg)
    exc.log = [f'{a}: {b}' for a, _, b in trace][-120:]
    return exc


def interleaving(trace):
    """Count the interesting interleaving patterns of a finished run."""
    out = {'reader-op-spans-packer-commit': 0, 'reader-op-spans-packer-unlink': 0, 'writer-rename-inside-pack': 0,
           'reader-op-spans-writer-rename': 0, 'packer-preempted-mid-pack': 0}
    open_ops = {}
    for actor, kind, brief in trace:
        if kind == 'op-start':
            open_ops[actor] = {'seen_own': False, 'commit': False, 'unlink': False, 'rename': False, 'what': brief, 'preempted': False}
            continue
        if kind == 'op-end':
            open_ops.pop(actor, None)
            continue
        own = open_ops.get(actor)
        if own is not None:
            if actor.startswith('r'):
                for flag, name in (('commit', 'reader-op-spans-packer-commit'), ('unlink', 'reader-op-spans-packer-unlink'),
                                   ('rename', 'reader-op-spans-writer-rename')):
                    if own[flag]:
                        out[name] += 1
                        own[flag] = False
            own['seen_own'] = True
        for other, state in open_ops.items():
            if other == actor or not state['seen_own']:
                continue
            if actor == 'packer' and kind == 'sql-commit' and other.startswith('r'):
                state['commit'] = True
            if actor == 'packer' and kind == 'unlink' and 'loose/' in brief and other.startswith('r'):
                state['unlink'] = True
            if actor.startswith('w') and kind == 'rename' and other.startswith('r'):
                state['rename'] = True
            if actor.startswith('w') and kind == 'rename' and other == 'packer' and state['what'] == 'pack':
                out['writer-rename-inside-pack'] += 1
            if other == 'packer' and state['what'] == 'pack' and not state['preempted']:
                out['packer-preempted-mid-pack'] += 1
                state['preempted'] = True
    return out


# ------------------------------------------------------------------------------------------- exhaustive small schedules

_CFG = {'hash_type': 'sha256', 'loose_prefix_len': 2, 'level': 1, 'pack_size_target': 4 * 1024**3}
_POOL = [['text', 300, 1], ['text', 700, 2], ['random', 200, 3], ['text', 90, 4]]
SCENARIOS = {
    # pool index 0 loose, 1 packed compressed beforehand; the writer adds 2 (new) / 0 (duplicate of a loose object)
    'get-loose-vs-pack+clean': {'pre': [(0, 0), (1, 2)], 'writers': [[(2, False)]],
                                'readers': [{'long': False, 'ops': [('get', [6], 0), ('get', [6], 0)]}],
                                'packer': {'mode': 0, 'clean_per_pack': True, 'validate': True}},
    'long-handle-has+bulk': {'pre': [(0, 0), (1, 2)], 'writers': [[(2, True)]],
                             'readers': [{'long': True, 'ops': [('has', [6, 11], 0), ('bulk', [6, 11, 16], 1)]}],
                             'packer': {'mode': 1, 'clean_per_pack': False, 'validate': True}},
    'seek-compressed-vs-clean': {'pre': [(0, 0), (1, 2)], 'writers': [[(0, False)]],
                                 'readers': [{'long': False, 'ops': [('stream', [11], 3), ('meta', [6, 11], 0)]}],
                                 'packer': {'mode': 3, 'clean_per_pack': True, 'validate': False}},
    'bulk-seek-vs-compressing-packer': {'pre': [(0, 0), (1, 0), (3, 2)], 'writers': [[(2, False)]],
                                        'readers': [{'long': False, 'ops': [('bulkseek', [6, 11, 21], 2), ('bulkseek', [6, 11, 16], 1)]}],
                                        'packer': {'mode': 1, 'clean_per_pack': True, 'validate': True}},
    # small pack_size_target: every packed object lands in its own pack file
    'bulk-noskip-vs-multi-pack-packer': {'cfg': {'hash_type': 'sha1', 'loose_prefix_len': 0, 'level': 3, 'pack_size_target': 64},
                                         'pre': [(0, 0), (1, 0), (3, 0)], 'writers': [[(2, False)]],
                                         'readers': [{'long': False, 'ops': [('bulk', [6, 11, 21], 0), ('meta', [6, 11, 21, 16], 0),
                                                                             ('bulkseek', [6, 11, 21], 2)]}],
                                         'packer': {'mode': 1, 'clean_per_pack': True, 'validate': True}},
    'long-handle-meta-get': {'pre': [(0, 3), (3, 0)], 'writers': [[(2, False), (3, True)]],
                             'readers': [{'long': True, 'ops': [('meta', [6, 21], 0), ('get', [21], 0), ('has', [6, 16, 21], 0)]}],
                             'packer': {'mode': 5, 'clean_per_pack': True, 'validate': True}},
}
_ORDERS = (['w0', 'r0', 'packer'], ['packer', 'r0', 'w0'], ['r0', 'packer', 'w0'])


def _fixed_case(name, order, schedule):
    spec = SCENARIOS[name]
    return {'cfg': spec.get('cfg', _CFG), 'pool': _POOL, 'pre': spec['pre'], 'writers': spec['writers'], 'readers': spec['readers'],
            'packer': spec['packer'], 'schedule': schedule, 'order': order, 'scenario': name}


def exhaustive(ctx, depth):
    """ALL schedules with at most `depth` pre-emptions of the small scenario families: actor A runs n1 events, is pre-empted
    by B (which runs n2 events and is pre-empted by C, for depth 2), everybody else then runs to completion in base order."""
    big = 10**9
    index = 0
    done = 0
    for name in SCENARIOS:
        for order in _ORDERS:
            base = _fixed_case(name, order, [])
            run_case(base)
            events = base['_events']
            actors = list(order)
            schedules = []
            for first in actors:
                for n1 in range(1, events[first] + 1):
                    for second in actors:
                        if second == first:
                            continue
                        if depth == 1:
                            schedules.append([(first, n1), (second, big)])
                            continue
                        # depth 2: `second` is pre-empted after n2 events by any third choice
                        for n2 in range(1, events[second] + 2, 1 if n1 % 4 == 1 else 3):
                            for third in actors:
                                if third != second:
                                    schedules.append([(first, n1), (second, n2), (third, big)])
            for schedule in schedules:
                index += 1
                if not ctx.mine(index):
                    continue
                if ctx.out_of_time():
                    ctx.stats.skipped_budget += 1
                    continue
                case = _fixed_case(name, order, schedule)
                try:
                    nontrivial, fp, sample, labels = run_case(case)
                except Violation as exc:
                    case.pop('_events', None)
                    ctx.stats.violations.append({'property': exc.prop, 'sig': exc.sig, 'msg': exc.msg, 'case': case, 'log': getattr(exc, 'log', None)})
                    return
                done += 1
                sample['scenario'] = name
                sample['schedule'] = schedule
                ctx.stats.record(nontrivial, ['x', name, order, fp], sample)
                for label in labels:
                    if label.startswith('pattern:'):
                        ctx.stats.label('x-' + label)
    ctx.stats.label('exhaustive-schedules', done)
    ctx.stats.extra['exhaustive_preemption_depth'] = str(depth)
    ctx.stats.extra['exhaustive_schedules_run'] = done


def run_shard(ctx):
    quick = ctx.tier == 'quick'
    n = 170 if quick else 20000
    ctx.set_budget(45 if quick else 1100)
    counter = [0]

    def run_and_probe(case):
        result = run_case(case)
        counter[0] += 1
        if counter[0] % 20 == 0:
            # determinism probe: the same scenario + schedule must produce the same event trace (one run = a pure function
            # of code, scenario and schedule); a mismatch is counted in the evidence, it is not a violation
            first = case.pop('_trace_sig', None)
            case.pop('_events', None)
            run_case(case)
            ctx.stats.label('determinism-probe')
            if case.get('_trace_sig') != first:
                ctx.stats.label('determinism-probe:TRACE-DIFFERS')
        case.pop('_trace_sig', None)
        case.pop('_events', None)
        return result

    explore(ctx, strategy(), run_and_probe, n)
    if not ctx.stats.violations:
        ctx.set_budget(40 if quick else 1100)
        exhaustive(ctx, 1 if quick else 2)


def replay(case):
    run_case(case)
