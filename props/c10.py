"""C10 - compression is transparent and honours the requested mode."""

from vlib import gen
from vlib.checkers import CompressionChecker

from ._hist import replay_history, run_histories

PROP = 'C10'
LEVEL = 'exploration'
RULE = (
    'Hypothesis-generated chains write -> pack_all_loose(mode) / repack(mode) / repack_pack(id, mode) with modes from '
    '{NO, YES, KEEP, AUTO, True, False}, zlib level 1..9 from the configuration, contents incl. the sampled-trap classes '
    '(compressible exactly where the AUTO heuristic samples, and the converse) and sizes around/above the 128 KiB sampling '
    'window; after every step: all reads unchanged; YES -> every affected row compressed, NO -> plain, KEEP -> previous flag '
    '(repack) / plain (pack_all_loose), AUTO -> either; rows of other packs untouched by repack_pack; size == len(content); '
    'stored range decodes exactly (eof at slice end) to the content, length == size for plain rows; get_total_size sums == '
    'raw sums; get_object_meta == raw row. Non-trivial = chain where a mode other than KEEP is applied to a row that was '
    'compressed before, or an object > 128 KiB packed/repacked under AUTO.'
)
ASSUMPTIONS = [
    'single maintenance client, sequential operations',
    'AUTO may choose either form (only its bookkeeping and transparency are judged)',
]

WEIGHTS = {'add': 7, 'addpack': 4, 'pack': 7, 'repack': 7, 'repack_pack': 5, 'delete': 1, 'reopen': 1, 'clean': 1, 'loosen': 1}


def strategy(tier='quick'):
    return gen.history_case(WEIGHTS, min_ops=2, max_ops=16 if tier == 'quick' else 30, max_size=300000, boundary_weight=3, pool_max=5)


def checkers():
    return [CompressionChecker()]


def nontrivial(world):
    return 'mode-change-on-compressed' in world.flags or 'auto-large' in world.flags


def run_shard(ctx):
    n = 160 if ctx.tier == 'quick' else 6000
    ctx.set_budget(80 if ctx.tier == 'quick' else 1100)
    run_histories(ctx, PROP, strategy(ctx.tier), checkers, nontrivial, n)


def replay(case):
    replay_history(case, PROP, checkers)
