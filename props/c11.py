"""C11 - deletion removes exactly the requested objects; repack reclaims their space."""

from vlib import gen
from vlib.checkers import DeleteChecker

from ._hist import replay_history, run_histories

PROP = 'C11'
LEVEL = 'exploration'
RULE = (
    'Hypothesis-generated histories that build objects in every form (loose, packed plain/compressed, both, with planted '
    'duplicates/<key>.<uuid> strays, several packs) interleaved with delete_objects(S), S drawn over present, absent and '
    'repeated keys, followed by clean_storage / repack(mode). Oracle: return value duplicate-free and == S intersect present; '
    'deleted keys gone from index, loose and duplicates (raw) and from has/get/list; all other keys read unchanged; after a '
    'full repack every pack file == concatenation of its rows contiguous from 0 with no tail, no pack file without rows, '
    'bytes of deleted objects occur in no pack. Non-trivial = deletion of a packed object that is not the last of its pack, '
    'followed by a full repack; distinct by (config, op kinds, flags, parameter signature).'
)
ASSUMPTIONS = ['delete/repack run while no other client accesses the container (as documented)']

WEIGHTS = {'add': 7, 'addpack': 7, 'pack': 4, 'clean': 3, 'delete': 8, 'repack': 6, 'plant_dup': 3, 'loosen': 2, 'reopen': 1, 'repack_pack': 1, 'addfail': 1}


def strategy(tier='quick'):
    return gen.history_case(WEIGHTS, min_ops=3, max_ops=30 if tier == 'quick' else 60, max_size=70000, boundary_weight=1,
                            targets=(1, 64, 1000, 100000, 4 * 1024 ** 3))


def checkers():
    return [DeleteChecker()]


def nontrivial(world):
    return 'repack-after-inner-delete' in world.flags


def run_shard(ctx):
    n = 150 if ctx.tier == 'quick' else 6000
    ctx.set_budget(80 if ctx.tier == 'quick' else 1100)
    run_histories(ctx, PROP, strategy(ctx.tier), checkers, nontrivial, n)


def replay(case):
    replay_history(case, PROP, checkers)
