"""C03 - index and pack files stay mutually consistent and self-describing."""

from vlib import gen
from vlib.checkers import RawChecker

from . import c02
from ._hist import replay_history, run_histories

PROP = 'C03'
LEVEL = 'exploration'
RULE = (
    'The operation histories of C02 (same generator, independent seeds); after EVERY step the on-disk state is read with '
    'sqlite3 + byte slices + zlib only: every row range lies inside an existing pack, ranges of one pack are pairwise '
    'disjoint, no key indexed twice, the slice (inflated iff flagged, eof reached exactly, no trailing bytes) has digest == '
    'hashkey and length == size, size == length when uncompressed, every loose file is named by its digest; and the '
    'documented manual recovery recipe (SELECT offset,length,pack_id,compressed; slice; zlib) returns the model bytes for '
    'every key. Non-trivial = history reaching a state with >= 2 packs, a compressed row, or a key both loose and packed.'
)
ASSUMPTIONS = c02.ASSUMPTIONS


def checkers():
    return [RawChecker()]


def nontrivial(world):
    return bool({'multi-pack', 'compressed-row', 'loose-and-packed'} & world.flags)


def run_shard(ctx):
    n = 120 if ctx.tier == 'quick' else 6000
    ctx.set_budget(80 if ctx.tier == 'quick' else 1100)
    run_histories(ctx, PROP, c02.strategy(ctx.tier), checkers, nontrivial, n, salt=3)


def replay(case):
    replay_history(case, PROP, checkers)
