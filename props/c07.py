"""C07 - every returned stream behaves like an in-memory file over the object."""

import itertools
import os

from hypothesis import strategies as st

from vlib import gen
from vlib.common import Violation, config_kwargs, content_of, digest, new_dir, rm_dir, short
from vlib.rawread import RawState
from vlib.runner import ddmin_ops, explore

PROP = 'C07'
LEVEL = 'exploration'
RULE = (
    '@given(configuration, target content (sizes 0,1,small, ~10% above 512 KiB), neighbour objects before and after it in the '
    'same pack, storage form in {loose, packed plain, packed compressed without cache, packed compressed with re-loosened '
    'cache, loose+packed}, access path in {get_object_stream, get_object_stream_and_meta, get_objects_stream_and_meta over '
    'several keys}, program of <= 25 steps over read(n)/read()/seek(t,0|1|2)/tell() with targets mostly in range, sometimes on '
    'the borders, sometimes out of range) run in lock-step against an in-memory reference. In-range step: value returned by '
    'seek/tell and bytes returned by read must equal the reference. Out-of-range seek: must be rejected with tell() '
    'unchanged, or clamped into [0,len], or land beyond the end like a plain file; the reference is re-synchronised to '
    'tell() and every later read must return exactly content[p:p+n] (never bytes outside the object). Plus exhaustive '
    'enumeration of all programs of length <= 2 (quick) / <= 3 (thorough) over a 34-step alphabet on a 5-byte object for '
    'every form, and of all in-range programs of length <= 2 / <= 3 over an 11-step alphabet of large reads, one-byte reads and rewinds on a '
    '1.25 MiB incompressible object (compressed form spans several 512 KiB decompresser chunks). Non-trivial = program with a backward or end-relative seek followed by a read on a packed form; distinct '
    'by (form, access, program, size class).'
)
ASSUMPTIONS = ['out-of-range seeks are not required to behave like BytesIO (real files, BytesIO and the library legitimately differ)']

FORMS = ('loose', 'packed', 'packed_compressed', 'packed_compressed_cached', 'loose_and_packed')
ACCESS = ('stream', 'stream_and_meta', 'bulk')


def step_strategy():
    return st.one_of(
        st.tuples(st.just('read'), st.sampled_from([0, 1, 2, 3, 7, 100, 4096, 65536, 70000, 300000, 524288, 600000])),
        st.tuples(st.just('read'), st.integers(0, 2000)),
        st.tuples(st.just('readfrac'), st.integers(1, 15)),
        st.tuples(st.just('readall'), st.just(0)),
        st.tuples(st.just('tell'), st.just(0)),
        st.tuples(st.just('seek0'), st.integers(0, 10**7)),
        st.tuples(st.just('seek1'), st.integers(0, 10**7)),
        st.tuples(st.just('seek2'), st.integers(0, 10**7)),
        st.tuples(st.just('seek_border'), st.integers(0, 11)),
        st.tuples(st.just('seek_out'), st.integers(0, 59)),
    ).map(list)


def strategy():
    target = st.one_of(
        gen.content_desc(3000, 1),
        gen.content_desc(3000, 1),
        gen.content_desc(140000, 2),
        st.tuples(st.sampled_from(['random', 'random', 'text', 'mixed']), st.sampled_from([524287, 524288, 524289, 600001, 1048577, 1300000]), st.integers(0, 9)).map(list),
    )
    return st.fixed_dictionaries(
        {
            'cfg': gen.config(),
            'target': target,
            'before': st.lists(gen.content_desc(400, 0), max_size=2),
            'after': st.lists(gen.content_desc(400, 0), max_size=2),
            'form': st.sampled_from(FORMS),
            'access': st.sampled_from(ACCESS),
            'program': st.lists(step_strategy(), min_size=1, max_size=25),
            # internal read-chunk size of the decompresser (a tuning constant: behaviour must not depend on it); lowering it makes
            # chunk-alignment situations reachable that need MiB-sized, poorly compressible objects at the production value
            'dchunk': st.sampled_from([None, None, None, 1, 3, 16, 64, 1000]),
        }
    )


def concretise(step, size, pos):
    """Map a generated step to a concrete call given object size and current reference position."""
    kind, x = step
    if kind in ('read', 'readall', 'tell'):
        return (kind, x)
    if kind == 'readfrac':
        return ('read', size * x // 16 + x)
    if kind == 'seek0':
        return ('seek', x % (size + 1), 0)
    if kind == 'seek1':
        return ('seek', x % (size + 1) - pos, 1)
    if kind == 'seek2':
        return ('seek', x % (size + 1) - size, 2)
    if kind == 'seek_border':
        target = (0, size, max(size - 1, 0), min(1, size))[x % 4]
        whence = (x // 4) % 3
        return ('seek', target - (0, pos, size)[whence], whence)
    # out of range
    over = x % 5 + 1
    target = size + over if (x // 5) % 2 == 0 else -over
    if (x // 10) % 6 == 5:
        target = size + 100000 if target > 0 else -100000
    whence = (x // 10) % 3
    return ('seek', target - (0, pos, size)[whence], whence)


def run_program(stream, data, program, concrete=False):
    """Lock-step execution. Returns dict of class labels; raises Violation."""
    size = len(data)
    pos = 0
    info = {'backward_then_read': False, 'out_of_range': 0, 'rejected': 0, 'steps': []}
    pending_back = False
    for step in program:
        call = tuple(step) if concrete else concretise(step, size, min(pos, size))
        info['steps'].append(list(call))
        if call[0] == 'tell':
            got = stream.tell()
            if got != pos:
                raise Violation(PROP, 'tell', f'tell()={got}, reference position {pos} after {info["steps"]}')
        elif call[0] in ('read', 'readall'):
            got = stream.read() if call[0] == 'readall' else stream.read(call[1])
            want = data[pos:] if call[0] == 'readall' else data[pos : pos + call[1]]
            if got != want:
                outside = 'bytes from OUTSIDE the object' if (len(got) > len(want) or (got and got not in data)) else 'wrong bytes'
                raise Violation(
                    PROP,
                    'read-outside' if outside.startswith('bytes') else 'read-wrong',
                    f'{call} at position {pos} of {size} returned {short(got)} ({len(got)} bytes, {outside}), '
                    f'expected {short(want)} ({len(want)} bytes); program {info["steps"]}',
                )
            pos += len(got)
            if pending_back and call != ('read', 0):
                info['backward_then_read'] = True
            pending_back = False
        else:
            _, offset, whence = call
            target = offset + (0, pos, size)[whence]
            if 0 <= target <= size:
                try:
                    got = stream.seek(offset, whence)
                except Exception as exc:  # pylint: disable=broad-except
                    raise Violation(PROP, f'seek-raised:{type(exc).__name__}', f'in-range seek({offset},{whence}) (target {target} of {size}) raised {exc!r}; program {info["steps"]}') from exc
                if got != target:
                    raise Violation(PROP, f'seek-return:whence{whence}', f'seek({offset},{whence}) returned {got}, expected {target}; program {info["steps"]}')
                if target < pos or whence == 2:
                    pending_back = True
                pos = target
            else:
                info['out_of_range'] += 1
                try:
                    stream.seek(offset, whence)
                    raised = False
                except Exception:  # pylint: disable=broad-except
                    raised = True
                    info['rejected'] += 1
                try:
                    now = stream.tell()
                except Exception as exc:  # pylint: disable=broad-except
                    raise Violation(PROP, 'tell-after-bad-seek', f'tell() raised {exc!r} after out-of-range seek({offset},{whence}); program {info["steps"]}') from exc
                if raised and now != pos:
                    raise Violation(PROP, 'rejected-seek-moved', f'seek({offset},{whence}) was rejected but moved the position from {pos} to {now}; program {info["steps"]}')
                if now < 0:
                    raise Violation(PROP, 'negative-position', f'position {now} after seek({offset},{whence}); program {info["steps"]}')
                if not raised and not (0 <= now <= size or now == target):
                    raise Violation(PROP, 'bad-seek-landed', f'out-of-range seek({offset},{whence}) (target {target}, size {size}) left position {now}; program {info["steps"]}')
                pos = now
                pending_back = False
    return info


def build(root, case_cfg, before, target, after, form):
    from disk_objectstore import Container

    cont = Container(os.path.join(root, 'c'))
    cont.init_container(**config_kwargs(case_cfg))
    data = content_of(target)
    key = digest(case_cfg['hash_type'], data)
    batch = [content_of(d) for d in before] + [data] + [content_of(d) for d in after]
    if form in ('loose', 'loose_and_packed'):
        cont.add_object(data)
        for blob in batch:
            if blob != data:
                cont.add_object(blob)
    if form != 'loose':
        cont.add_objects_to_pack(batch, compress=form.startswith('packed_compressed'))
    if form == 'packed_compressed_cached':
        cont.loosen_object(key)
    others = [digest(case_cfg['hash_type'], b) for b in batch if b != data]
    return cont, key, data, others


def run_access(cont, key, data, others, access, program, concrete=False):
    if access == 'stream':
        with cont.get_object_stream(key) as stream:
            return run_program(stream, data, program, concrete)
    if access == 'stream_and_meta':
        with cont.get_object_stream_and_meta(key) as (stream, meta):
            if meta.size != len(data):
                raise Violation(PROP, 'meta-size', f'meta.size={meta.size} len={len(data)}')
            return run_program(stream, data, program, concrete)
    info = None
    with cont.get_objects_stream_and_meta(others + [key]) as triplets:
        for k, stream, _ in triplets:
            if k == key:
                info = run_program(stream, data, program, concrete)
            else:
                stream.read(3)
    if info is None:
        raise Violation(PROP, 'bulk-missing', 'target key not yielded by get_objects_stream_and_meta')
    return info


def run_case(case):
    from disk_objectstore import utils

    root = new_dir('c07')
    cont = None
    saved_chunk = utils.ZlibLikeBaseStreamDecompresser._CHUNKSIZE  # pylint: disable=protected-access
    try:
        cont, key, data, others = build(root, case['cfg'], case['before'], case['target'], case['after'], case['form'])
        if case.get('dchunk'):
            utils.ZlibLikeBaseStreamDecompresser._CHUNKSIZE = case['dchunk']  # pylint: disable=protected-access
        info = run_access(cont, key, data, others, case['access'], case['program'])
    finally:
        utils.ZlibLikeBaseStreamDecompresser._CHUNKSIZE = saved_chunk  # pylint: disable=protected-access
        if cont is not None:
            cont.close()
        rm_dir(root)
    packed = case['form'] != 'loose'
    nontrivial = info['backward_then_read'] and packed
    size = len(data)
    sizeclass = 'empty' if size == 0 else 'tiny' if size < 8 else 'small' if size < 65536 else 'multi-chunk' if size < 524288 else 'over-512K'
    labels = [f'form:{case["form"]}', f'access:{case["access"]}', f'size:{sizeclass}']
    if case.get('dchunk'):
        labels.append('lowered-decompresser-chunk')
    if info['out_of_range']:
        labels.append('has-out-of-range-seek')
    if info['rejected']:
        labels.append('has-rejected-seek')
    if info['backward_then_read']:
        labels.append('backward-seek-then-read')
    fp = [case['form'], case['access'], info['steps'], sizeclass]
    sample = {'form': case['form'], 'access': case['access'], 'size': size, 'program': info['steps'][:12]}
    return nontrivial, fp, sample, labels


ALPHABET = (
    [('read', 0), ('read', 1), ('read', 2), ('readall', 0), ('tell', 0)]
    + [('seek', t, 0) for t in range(-1, 7)]
    + [('seek', t, 1) for t in range(-6, 7)]
    + [('seek', t, 2) for t in range(-6, 2)]
)


def exhaustive(ctx, length):
    """All programs of up to `length` steps over ALPHABET on a 5-byte object, every form."""
    cfg = {'hash_type': 'sha256', 'loose_prefix_len': 2, 'level': 1, 'pack_size_target': 4 * 1024**3}
    count = 0
    index = 0
    for form in FORMS:
        root = new_dir('c07x')
        cont = None
        try:
            cont, key, data, others = build(root, cfg, [['text', 7, 1]], ['text', 5, 2], [['text', 9, 3]], form)
            loose_path = None
            for n in range(1, length + 1):
                for program in itertools.product(ALPHABET, repeat=n):
                    index += 1
                    if not ctx.mine(index):
                        continue
                    if ctx.out_of_time():
                        ctx.stats.skipped_budget += 1
                        continue
                    if form == 'packed_compressed':
                        loose_path = loose_path or RawState(os.path.join(root, 'c'))
                        lp = cont._get_loose_path_from_hashkey(key)  # pylint: disable=protected-access
                        if os.path.exists(lp):
                            os.remove(lp)
                    try:
                        info = run_access(cont, key, data, others, 'stream', [list(s) for s in program], concrete=True)
                    except Violation as exc:
                        ctx.stats.violations.append(
                            {'property': exc.prop, 'sig': exc.sig, 'msg': exc.msg,
                             'case': {'exhaustive': True, 'form': form, 'program': [list(s) for s in program]}, 'log': None}
                        )
                        return
                    count += 1
                    nontrivial = info['backward_then_read'] and form != 'loose'
                    ctx.stats.record(nontrivial, ['x', form, program], {'form': form, 'program': [list(s) for s in program]})
        finally:
            if cont is not None:
                cont.close()
            rm_dir(root)
    ctx.stats.label('exhaustive-programs', count)
    ctx.stats.extra['exhaustive_programs_len'] = length
    ctx.stats.extra['exhaustive_programs_run'] = count


BOUNDARY_ALPHABET = (
    ('read', 700000), ('read', 524288), ('read', 100), ('read', 1), ('readall', 0), ('tell', 0),
    ('seek', 0, 0), ('seek', 100, 0), ('seek', 600000, 0), ('seek', -50, 1), ('seek', -10, 2),
)


def boundary_programs(ctx, length):
    """All programs of up to `length` steps over an alphabet of large reads and rewinds on a 1.25 MiB incompressible object
    (its compressed form spans several 512 KiB decompresser chunks), every form."""
    cfg = {'hash_type': 'sha256', 'loose_prefix_len': 2, 'level': 1, 'pack_size_target': 4 * 1024**3}
    target = ['random', 1310720, 5]
    count = 0
    index = 0
    for form in FORMS:
        root = new_dir('c07b')
        cont = None
        try:
            cont, key, data, others = build(root, cfg, [['text', 7, 1]], target, [['text', 9, 3]], form)
            # the compressed forms always get length-3 programs (read across a chunk boundary, rewind, read again)
            for n in range(1, (3 if form.startswith('packed_compressed') else length) + 1):
                for program in itertools.product(BOUNDARY_ALPHABET, repeat=n):
                    index += 1
                    if not ctx.mine(index):
                        continue
                    if ctx.out_of_time():
                        ctx.stats.skipped_budget += 1
                        continue
                    steps = []
                    pos = 0
                    valid = True
                    for step in program:  # keep only programs whose seeks stay in range (judged exactly)
                        if step[0] == 'seek':
                            tgt = step[1] + (0, pos, len(data))[step[2]]
                            if not 0 <= tgt <= len(data):
                                valid = False
                                break
                            pos = tgt
                        elif step[0] == 'read':
                            pos = min(len(data), pos + step[1])
                        elif step[0] == 'readall':
                            pos = len(data)
                        steps.append(list(step))
                    if not valid:
                        continue
                    if form == 'packed_compressed':
                        lp = cont._get_loose_path_from_hashkey(key)  # pylint: disable=protected-access
                        if os.path.exists(lp):
                            os.remove(lp)
                    try:
                        info = run_access(cont, key, data, others, 'stream', steps, concrete=True)
                    except Violation as exc:
                        ctx.stats.violations.append(
                            {'property': exc.prop, 'sig': exc.sig, 'msg': exc.msg,
                             'case': {'boundary': True, 'form': form, 'program': steps}, 'log': None}
                        )
                        return
                    count += 1
                    ctx.stats.record(info['backward_then_read'] and form != 'loose', ['b', form, steps], {'form': form, 'object': target, 'program': steps})
        finally:
            if cont is not None:
                cont.close()
            rm_dir(root)
    ctx.stats.label('boundary-programs', count)


def shrink(case, exc):
    return ddmin_ops(case, exc, run_case, key='program', budget_s=30)


def run_shard(ctx):
    n = 250 if ctx.tier == 'quick' else 24000
    ctx.set_budget(70 if ctx.tier == 'quick' else 1100)
    explore(ctx, strategy(), run_case, n, shrink=shrink)
    if not ctx.stats.violations:
        exhaustive(ctx, 2 if ctx.tier == 'quick' else 3)
    if not ctx.stats.violations:
        ctx.set_budget(40 if ctx.tier == 'quick' else 900)
        boundary_programs(ctx, 2 if ctx.tier == 'quick' else 3)


def replay(case):
    if case.get('boundary'):
        cfg = {'hash_type': 'sha256', 'loose_prefix_len': 2, 'level': 1, 'pack_size_target': 4 * 1024**3}
        root = new_dir('c07r')
        cont = None
        try:
            cont, key, data, others = build(root, cfg, [['text', 7, 1]], ['random', 1310720, 5], [['text', 9, 3]], case['form'])
            run_access(cont, key, data, others, 'stream', case['program'], concrete=True)
        finally:
            if cont is not None:
                cont.close()
            rm_dir(root)
        return
    if case.get('exhaustive'):
        cfg = {'hash_type': 'sha256', 'loose_prefix_len': 2, 'level': 1, 'pack_size_target': 4 * 1024**3}
        root = new_dir('c07r')
        cont = None
        try:
            cont, key, data, others = build(root, cfg, [['text', 7, 1]], ['text', 5, 2], [['text', 9, 3]], case['form'])
            run_access(cont, key, data, others, 'stream', case['program'], concrete=True)
        finally:
            if cont is not None:
                cont.close()
            rm_dir(root)
        return
    run_case(case)
