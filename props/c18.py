"""C18 - bounded resources: no descriptor leaks, one open file, chunked I/O."""

import gc
import io
import os
import random
import tracemalloc

from hypothesis import strategies as st

from vlib import gen
from vlib.checkers import FdChecker, container_fds
from vlib.common import Violation, config_kwargs, content_of, digest, new_dir, rm_dir
from vlib.runner import ddmin_ops, explore

from ._hist import run_histories
from ._hist import replay_history

PROP = 'C18'
LEVEL = 'exploration'
RULE = (
    '(a) descriptor census on Hypothesis-generated operation histories (C02 generator): after EVERY step the descriptors of '
    'this process that point inside the container folder (readlink of /proc/self/fd) are only index files (packs.idx[-wal|'
    '-shm]) of live sessions, their number is bounded independently of the number of steps, and after close() there is none. '
    '(b) @given(container with objects spread over several packs and loose files, key subset, consumer behaviour per yielded '
    'stream: ignore / partial read / full read / end-relative seek): during get_objects_stream_and_meta and '
    'get_objects_content at most ONE pack-or-loose descriptor is open at every yielded triplet (two only while the consumer '
    'has seeked inside a compressed object, which opens the re-loosened cache by design; back to <= 1 at the next triplet) '
    'and none afterwards; add_streamed_objects_to_pack(open_streams=True) over counting LazyOpeners never has more than one '
    'input open and none afterwards. (c) tracemalloc peak of every streaming path (add_streamed_object, '
    'add_streamed_objects_to_pack plain/compressed, pack_all_loose NO/YES/AUTO, repack NO->YES / YES->NO / KEEP, validate, '
    'chunked read of loose / packed / compressed, import_objects with a budget below the object size) on generated streams '
    'of 4 MiB vs 12 MiB (quick) / 32 MiB (thorough), compressible and incompressible: peak(big) - peak(4 MiB) < (big - 4 MiB)/4 '
    'and peak(big) < 3/4 of the object size. (d) the census of (a) over the multi-handle histories of C08 (2-4 handles, adds '
    'through any, pack/clean through one, queries through stale handles, which take the fall-back paths of the readers); the '
    'cyclic garbage collector is off during (a) and (d), so a descriptor closed only by a collection counts as open. '
    'Non-trivial: (a) history with a pack-writing op; (b) request spanning >= 2 files; (c) size >= 8 MiB; (d) a query through a stale handle.'
)
ASSUMPTIONS = [
    'native allocations of zlib / SQLite are invisible to tracemalloc; RSS is not used as an oracle',
    'get_object_content / get_objects_content return whole objects by contract and are not part of (c)',
    'Linux /proc/self/fd is the census',
]

WEIGHTS = {'add': 8, 'addpack': 8, 'pack': 6, 'clean': 3, 'repack': 3, 'delete': 3, 'loosen': 2, 'seekread': 3, 'aux_add': 2, 'import': 3, 'reopen': 2, 'addfail': 3, 'nested': 4}


# --------------------------------------------------------------------------------------------- (a)


def checkers_a():
    return [FdChecker()]


def nontrivial_a(world):
    return any(k in world.stats for k in ('addpack', 'pack', 'repack', 'import'))


# --------------------------------------------------------------------------------------------- (b)


def strategy_b():
    return st.fixed_dictionaries(
        {
            'cfg': gen.config(targets=(1, 64, 1000, 4 * 1024**3)),
            'pool': st.lists(gen.content_desc(3000, 0), min_size=2, max_size=10),
            'objs': st.lists(st.tuples(st.integers(0, 9), st.integers(0, 3)), min_size=2, max_size=10),
            'request': st.lists(st.integers(0, 63), min_size=1, max_size=12),
            'consumer': st.lists(st.integers(0, 3), min_size=1, max_size=12),
            'skip': st.booleans(),
        }
    )


def data_fds(root):
    return [t for _, t in container_fds(root) if '/packs/' in t or '/loose/' in t or '/sandbox/' in t or '/duplicates/' in t]


def run_case_b(case):  # pylint: disable=too-many-locals,too-many-branches
    from pathlib import Path

    from disk_objectstore import Container
    from disk_objectstore.utils import LazyOpener

    cfg = case['cfg']
    pool = [content_of(d) for d in case['pool']]
    root = new_dir('c18b')
    path = os.path.join(root, 'c')
    cont = Container(path)
    try:
        cont.init_container(**config_kwargs(cfg))
        model = {}
        for idx, form in case['objs']:
            data = pool[idx % len(pool)]
            if form in (0, 3):
                key = cont.add_object(data)
            if form in (1, 2, 3):
                key = cont.add_objects_to_pack([data], compress=form == 2)[0]
            model[key] = data
        keys = sorted(model)
        request = []
        for sel in case['request']:
            request.append(digest(cfg['hash_type'], b'absent%d' % sel) if sel % 5 == 0 else keys[(sel // 5) % len(keys)])
        max_open = 0
        files_touched = set()
        with cont.get_objects_stream_and_meta(request, skip_if_missing=case['skip']) as triplets:
            for i, (key, stream, meta) in enumerate(triplets):
                open_now = data_fds(root)
                max_open = max(max_open, len(open_now))
                files_touched.update(open_now)
                if len(open_now) > 1:
                    raise Violation(PROP, 'bulk:more-than-one-open', f'{len(open_now)} data files open at a yielded triplet: {open_now}')
                if stream is None:
                    continue
                action = case['consumer'][i % len(case['consumer'])]
                if action == 1:
                    stream.read(2)
                elif action == 2:
                    if stream.read() != model[key]:
                        raise Violation(PROP, 'bulk:wrong-bytes', f'{key[:10]} read differs')
                elif action == 3 and meta.size:
                    stream.seek(-1, 2)
                    stream.read()
                    during = data_fds(root)
                    limit = 2 if meta.pack_compressed else 1
                    if len(during) > limit:
                        raise Violation(PROP, 'bulk:too-many-open-during-seek', f'{len(during)} data files open while seeking in {key[:10]}: {during}')
        left = data_fds(root)
        if left:
            raise Violation(PROP, 'bulk:left-open', f'after get_objects_stream_and_meta: {left} still open')
        cont.get_objects_content(request, skip_if_missing=case['skip'])
        left = data_fds(root)
        if left:
            raise Violation(PROP, 'bulk:left-open-content', f'after get_objects_content: {left} still open')
        # abandoned iteration: the context manager is left after the first triplet
        with cont.get_objects_stream_and_meta(request) as triplets:
            for _ in triplets:
                break
            del triplets
        gc.collect()
        left = data_fds(root)
        if left:
            raise Violation(PROP, 'bulk:left-open-abandoned', f'after an abandoned bulk iteration: {left} still open')

        # lazily opened inputs
        class CountingOpener(LazyOpener):
            open_now = 0
            max_open = 0

            def __enter__(self):
                handle = super().__enter__()
                CountingOpener.open_now += 1
                CountingOpener.max_open = max(CountingOpener.max_open, CountingOpener.open_now)
                return handle

            def __exit__(self, *args):
                CountingOpener.open_now -= 1
                return super().__exit__(*args)

        tmp = os.path.join(root, 'inputs')
        os.makedirs(tmp)
        openers = []
        for i, data in enumerate(pool):
            fpath = os.path.join(tmp, f'in{i}')
            with open(fpath, 'wb') as fhandle:
                fhandle.write(data + b'-new')
            openers.append(CountingOpener(Path(fpath)))
        cont.add_streamed_objects_to_pack(openers, open_streams=True, compress=bool(case['consumer'][0] & 1), no_holes=case['skip'])
        if CountingOpener.max_open > 1:
            raise Violation(PROP, 'lazy:more-than-one-input-open', f'{CountingOpener.max_open} LazyOpener inputs open at the same time')
        still = [t for _, t in container_fds(root) if '/inputs/' in t]
        if CountingOpener.open_now != 0 or still:
            raise Violation(PROP, 'lazy:input-left-open', f'inputs still open after the call: {still}')
        cont.close()
        left = container_fds(root)
        if left:
            raise Violation(PROP, 'fd:after-close', f'after close(): {sorted(t for _, t in left)} still open')
    finally:
        cont.close()
        rm_dir(root)
    nontrivial = len(files_touched) >= 2
    labels = ['part-b', f'b:max-open={max_open}', f'b:files-touched={min(len(files_touched), 4)}']
    fp = ['b', cfg, case['objs'], case['request'], case['consumer']]
    sample = {'part': 'b', 'objects': len(model), 'request': len(request), 'files_touched': len(files_touched), 'max_open': max_open}
    return nontrivial, fp, sample, labels


# --------------------------------------------------------------------------------------------- (c)


class GenStream:
    """A read-only stream of `size` bytes generated on the fly (never holds more than one chunk)."""

    mode = 'rb'

    def __init__(self, size, kind, seed=7):
        self.size = size
        self.kind = kind
        self.seed = seed
        self.pos = 0
        self._block = random.Random(seed).randbytes(65536)

    def _gen(self, start, length):
        if self.kind == 'zeros':
            return bytes(length)
        if self.kind == 'text':
            unit = b'the quick brown fox %d jumps over the lazy dog\n' % self.seed
            reps = length // len(unit) + 2
            off = start % len(unit)
            return (unit * reps)[off : off + length]
        out = bytearray()
        while len(out) < length:
            block_index = (start + len(out)) // 65536
            off = (start + len(out)) % 65536
            block = random.Random(self.seed * 7919 + block_index).randbytes(65536)
            out += block[off : off + length - len(out)]
        return bytes(out)

    def read(self, size=-1):
        if size is None or size < 0:
            size = self.size - self.pos
        size = min(size, self.size - self.pos, 1 << 20)
        data = self._gen(self.pos, size)
        self.pos += len(data)
        return data

    def seek(self, target, whence=0):
        self.pos = target + (0, self.pos, self.size)[whence]
        return self.pos

    def tell(self):
        return self.pos

    def seekable(self):  # pylint: disable=no-self-use
        return True


STREAM_PATHS = (
    'add_streamed_object', 'to_pack_plain', 'to_pack_compressed', 'to_pack_no_holes', 'pack_NO', 'pack_YES', 'pack_AUTO',
    'repack_NO_to_YES', 'repack_YES_to_NO', 'repack_KEEP', 'repack_AUTO', 'validate_plain', 'validate_compressed',
    'read_loose', 'read_packed', 'read_compressed', 'seek_compressed', 'import_streamed', 'import_streamed_diffhash', 'loosen',
)
MIB = 1024 * 1024


def measure(path_name, size, kind):
    """Peak traced memory (bytes) of the streaming operation `path_name` on an object of `size` bytes."""
    from disk_objectstore import Container
    from disk_objectstore.utils import CompressMode

    root = new_dir('c18c')
    cont = Container(os.path.join(root, 'c'))
    other = None
    try:
        cont.init_container()
        stream = GenStream(size, kind)

        def prepare(form):
            if form == 'loose':
                return cont.add_streamed_object(GenStream(size, kind))
            return cont.add_streamed_objects_to_pack([GenStream(size, kind)], compress=form == 'compressed')[0]

        if path_name == 'add_streamed_object':
            action = lambda: cont.add_streamed_object(stream)
        elif path_name == 'to_pack_plain':
            action = lambda: cont.add_streamed_objects_to_pack([stream])
        elif path_name == 'to_pack_compressed':
            action = lambda: cont.add_streamed_objects_to_pack([stream], compress=True)
        elif path_name == 'to_pack_no_holes':
            action = lambda: cont.add_streamed_object_to_pack(stream, no_holes=True, no_holes_read_twice=True)
        elif path_name.startswith('pack_'):
            prepare('loose')
            mode = getattr(CompressMode, path_name[5:])
            action = lambda: cont.pack_all_loose(compress=mode)
        elif path_name.startswith('repack_'):
            src = {'NO_to_YES': 'plain', 'YES_to_NO': 'compressed', 'KEEP': 'compressed', 'AUTO': 'plain'}[path_name[7:]]
            prepare(src)
            mode = {'NO_to_YES': CompressMode.YES, 'YES_to_NO': CompressMode.NO, 'KEEP': CompressMode.KEEP, 'AUTO': CompressMode.AUTO}[path_name[7:]]
            action = lambda: cont.repack(compress_mode=mode)
        elif path_name.startswith('validate_'):
            prepare(path_name[9:])
            prepare('loose')
            action = cont.validate
        elif path_name.startswith('read_'):
            key = prepare({'loose': 'loose', 'packed': 'plain', 'compressed': 'compressed'}[path_name[5:]])

            def action():
                total = 0
                with cont.get_object_stream(key) as handle:
                    while True:
                        chunk = handle.read(65536)
                        if not chunk:
                            break
                        total += len(chunk)
                assert total == size

        elif path_name == 'seek_compressed':
            key = prepare('compressed')

            def action():
                with cont.get_object_stream(key) as handle:
                    handle.seek(size // 2)
                    handle.read(10)
                    handle.seek(-5, 2)
                    assert len(handle.read()) == 5

        elif path_name == 'loosen':
            key = prepare('compressed')
            action = lambda: cont.loosen_object(key)
        elif path_name.startswith('import_streamed'):
            key = prepare('compressed')
            other = Container(os.path.join(root, 'other'))
            other.init_container(hash_type='sha1' if path_name.endswith('diffhash') else 'sha256')
            action = lambda: other.import_objects([key], cont, target_memory_bytes=1000, compress=True)
        else:
            raise ValueError(path_name)
        gc.collect()
        tracemalloc.start()
        try:
            tracemalloc.reset_peak()
            base = tracemalloc.get_traced_memory()[0]
            action()
            peak = tracemalloc.get_traced_memory()[1] - base
        finally:
            tracemalloc.stop()
        return peak
    finally:
        cont.close()
        if other is not None:
            other.close()
        rm_dir(root)


SMALL_MIB = 4


def memory_verdict(small, big, big_mib):
    """Metamorphic oracle: between two object sizes that are both far above any sensible chunk size, the traced peak must not
    follow the object size. Returns a problem string or None."""
    grow_limit = (big_mib - SMALL_MIB) * MIB // 4
    if big - small >= grow_limit:
        return f'peak grows with the object size: {small} bytes at {SMALL_MIB} MiB, {big} bytes at {big_mib} MiB (allowed growth {grow_limit})'
    if big >= big_mib * MIB * 3 // 4:
        return f'peak {big} bytes for a {big_mib} MiB object: the object is (almost) entirely held in memory'
    return None


def part_c(ctx, big_mib):
    combos = [(p, k) for p in STREAM_PATHS for k in ('random', 'text')]
    for index, (path_name, kind) in enumerate(combos):
        if not ctx.mine(index):
            continue
        small = measure(path_name, SMALL_MIB * MIB, kind)
        big = measure(path_name, big_mib * MIB, kind)
        ctx.stats.label(f'c:{path_name}')
        ctx.stats.extra.setdefault('peaks_bytes', {})[f'{path_name}/{kind}/{SMALL_MIB}vs{big_mib}MiB'] = [small, big]
        problem = memory_verdict(small, big, big_mib)
        if problem:
            ctx.stats.violations.append(
                {
                    'property': PROP,
                    'sig': f'memory:{path_name}',
                    'msg': f'{path_name} ({kind}): {problem}',
                    'case': {'part': 'c', 'path': path_name, 'kind': kind, 'big_mib': big_mib},
                    'log': None,
                }
            )
            return
        ctx.stats.record(True, ['c', path_name, kind, big_mib], {'part': 'c', 'path': path_name, 'kind': kind, f'peak_{SMALL_MIB}MiB': small, f'peak_{big_mib}MiB': big})


def run_case_d(case):
    """Part (d): the descriptor census over the multi-handle histories of C08 (stale handles take the reader's fall-back paths:
    second index look-up, re-opened pack files). Answers are C08's business; only descriptors are judged here."""
    import gc  # pylint: disable=import-outside-toplevel

    from props import c08  # pylint: disable=import-outside-toplevel
    from vlib.checkers import container_fds  # pylint: disable=import-outside-toplevel

    def observer(phase, root, nhandles, log):
        fds = container_fds(root)
        if phase == 'closed':
            if fds:
                raise Violation(PROP, 'fd:after-close:multi-handle', f'all {nhandles} handles closed, still open: {sorted(t for _, t in fds)}; history: {log}')
            return
        bad = [t for _, t in fds if not t.split('/')[-1].startswith('packs.idx')]
        if phase == 'triplet':
            # a bulk read is handing out a stream: at most one pack or loose file is open at that moment
            if len(bad) > 1:
                raise Violation(PROP, 'one-open-file:multi-handle', f'{len(bad)} pack / loose files open at a yielded triplet: {sorted(bad)}; history: {log}')
            return
        if bad:
            raise Violation(PROP, 'fd:leak:multi-handle', f'open descriptors inside the container after an operation returned: {sorted(bad)}; history: {log}')
        if len(fds) > 6 * (nhandles + 1):
            raise Violation(PROP, 'fd:accumulate:multi-handle', f'{len(fds)} index descriptors open for {nhandles} handles; history: {log}')

    gc.collect()
    gc.disable()
    try:
        try:
            nontrivial, fp, sample, labels = c08.run_case(case, observer=observer)
        except Violation as exc:
            if exc.prop == PROP:
                raise
            return False, ['d', 'other-property'], None, ['multi-handle-history', 'stopped-by-another-property']
    finally:
        gc.enable()
    return nontrivial, ['d'] + fp, dict(sample, part='d'), ['multi-handle-history'] + [lab for lab in labels if lab.startswith('stale-query') or lab == 'pack-between-yields']


def run_shard(ctx):
    quick = ctx.tier == 'quick'
    ctx.set_budget(45 if quick else 1100)
    run_histories(ctx, PROP, gen.history_case(WEIGHTS, min_ops=3, max_ops=30 if quick else 70, max_size=70000), checkers_a, nontrivial_a, 40 if quick else 800)
    if ctx.stats.violations:
        return
    ctx.set_budget(25 if quick else 900)
    explore(ctx, strategy_b(), run_case_b, 60 if quick else 8000, salt=1)
    if ctx.stats.violations:
        return
    from props import c08  # pylint: disable=import-outside-toplevel

    ctx.set_budget(20 if quick else 600)
    explore(ctx, c08.strategy(ctx.tier), run_case_d, 40 if quick else 4000, salt=2,
            shrink=lambda case, exc: ddmin_ops(case, exc, run_case_d))
    if ctx.stats.violations:
        return
    part_c(ctx, 12 if quick else 32)


def replay(case):
    if case.get('part') == 'c':
        small = measure(case['path'], SMALL_MIB * MIB, case['kind'])
        big = measure(case['path'], case['big_mib'] * MIB, case['kind'])
        problem = memory_verdict(small, big, case['big_mib'])
        if problem:
            raise Violation(PROP, f'memory:{case["path"]}', problem)
        return
    if 'nhandles' in case:
        run_case_d(case)
        return
    if 'ops' in case:
        replay_history(case, PROP, checkers_a)
        return
    run_case_b(case)
