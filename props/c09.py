"""C09 - storing known content never creates a second copy (deduplication)."""

from vlib import gen
from vlib.checkers import DedupChecker

from ._hist import replay_history, run_histories

PROP = 'C09'
LEVEL = 'exploration'
RULE = (
    'Hypothesis-generated operation histories (content pool of <= 5 contents so that >= 50% of the writes repeat a known '
    'content, within one batch, across batches and across loose/packed forms; all of compress/no_holes/no_holes_read_twice; '
    'compound rule "damage the loose copy (size-changing or same-size corruption, objects up to 600 kB) then re-add its content") interpreted on the real container next to a dict model; '
    'oracle after every step: returned key == digest, <= 1 index row and <= 1 loose file per key, stored objects == distinct '
    'contents, every key reads back; for a no_holes call: unreferenced bytes per pack do not increase and packs grow by exactly '
    'the stored length of previously unknown contents. Plus direct damage cases: @given(object size from 1 B to 1.3 MB straddling the '
    '512 KiB hashing chunk, damage kind incl. same-size corruption at a generated position, write path, also packed or not): damage '
    'the loose copy, store the content again, the loose file must hold the right bytes. Non-trivial = history containing a no_holes call with a repeat of packed '
    'content followed by a new content, or a damaged-copy re-add; distinct by (config, op kinds, flags, parameter signature).'
)
ASSUMPTIONS = [
    'single maintenance client, operations issued sequentially',
    'do_commit=False is not generated (its contract requires a manual commit)',
    'raw reader (sqlite3 + slices + zlib) is the ground truth for what is stored',
]

WEIGHTS = {
    'add': 5,
    'addpack': 9,
    'pack': 3,
    'clean': 2,
    'damage_readd': 3,
    'loosen': 1,
    'reopen': 1,
    'delete': 1,
    'repack': 1,
    'aux_add': 2,
    'import': 2,
    'addpack_off': 1,
    'addfail': 2,
}


def strategy():
    return gen.history_case(WEIGHTS, min_ops=2, max_ops=25, max_size=600000, boundary_weight=1, pool_max=5)


def checkers():
    return [DedupChecker()]


def nontrivial(world):
    return 'repeat-then-new' in world.flags or 'damage-readd' in world.flags


DAMAGE_SIZES = (1, 2, 100, 4096, 65536, 65537, 524287, 524288, 524289, 600001, 1048577, 1300000)


def damage_strategy():
    from hypothesis import strategies as st

    return st.fixed_dictionaries(
        {
            'cfg': gen.config(),
            'content': st.tuples(st.sampled_from(['random', 'text', 'mixed', 'zeros']), st.sampled_from(DAMAGE_SIZES), st.integers(0, 20)).map(list),
            'damage': st.sampled_from(['flip-first', 'flip-middle', 'flip-last', 'zero-block', 'truncate', 'extend', 'garbage', 'empty']),
            'where': st.integers(0, 10**7),
            'via': st.sampled_from(['add_object', 'add_streamed_object']),
            'also_packed': st.booleans(),
        }
    )


def run_damage_case(case):
    """Direct form of the last clause of C09: damage the loose copy in a generated way (also without changing its size), store the
    same content again through a loose write path: the key is returned and a correct loose copy is in place."""
    import io
    import os

    from disk_objectstore import Container

    from vlib.common import Violation, config_kwargs, content_of, digest, new_dir, rm_dir, short
    from vlib.rawread import RawState

    data = content_of(case['content'])
    root = new_dir('c09d')
    cont = Container(os.path.join(root, 'c'))
    try:
        cont.init_container(**config_kwargs(case['cfg']))
        key = cont.add_object(data)
        if case['also_packed']:
            cont.add_objects_to_pack([data])
        path = RawState(os.path.join(root, 'c')).loose_paths[key]
        size = len(data)
        pos = case['where'] % size
        kind = case['damage']
        if kind == 'flip-first':
            damaged = bytes([data[0] ^ 1]) + data[1:]
        elif kind == 'flip-middle':
            damaged = data[:pos] + bytes([data[pos] ^ 0x40]) + data[pos + 1 :]
        elif kind == 'flip-last':
            damaged = data[:-1] + bytes([data[-1] ^ 0x80])
        elif kind == 'zero-block':
            end = min(size, pos + 4096)
            damaged = data[:pos] + bytes(b ^ 0xFF for b in data[pos:end]) + data[end:]
        elif kind == 'truncate':
            damaged = data[:pos]
        elif kind == 'extend':
            damaged = data + b'x'
        elif kind == 'garbage':
            damaged = b'garbage'
        else:
            damaged = b''
        with open(path, 'wb') as fhandle:
            fhandle.write(damaged)
        got = cont.add_object(data) if case['via'] == 'add_object' else cont.add_streamed_object(io.BytesIO(data))
        if got != digest(case['cfg']['hash_type'], data):
            raise Violation(PROP, 'damage:wrong-key', f're-adding returned {got}')
        with open(path, 'rb') as fhandle:
            now = fhandle.read()
        if now != data:
            raise Violation(
                PROP, f'damaged-copy-kept:{kind}',
                f'loose copy of a {size}-byte object damaged by {kind} (same size: {len(damaged) == size}) and re-added via {case["via"]}: '
                f'the loose file still holds {short(now)} ({len(now)} bytes)',
            )
        if cont.get_object_content(key) != data and not case['also_packed']:
            raise Violation(PROP, 'damage:read-wrong', 'object reads wrong bytes after the re-add')
    finally:
        cont.close()
        rm_dir(root)
    same_size = len(damaged) == size
    labels = ['damage-case', f'damage:{kind}', 'damage:same-size' if same_size else 'damage:size-changed', 'size>512K' if size > 524288 else 'size<=512K']
    return True, ['d', case['content'][1], kind, case['via'], case['also_packed'], same_size], {'direct_damage_case': {k: case[k] for k in ('content', 'damage', 'via', 'also_packed')}}, labels


def run_shard(ctx):
    n = 160 if ctx.tier == 'quick' else 8000
    ctx.set_budget(75 if ctx.tier == 'quick' else 1100)
    run_histories(ctx, PROP, strategy(), checkers, nontrivial, n)
    if not ctx.stats.violations:
        from vlib.runner import explore

        ctx.set_budget(20 if ctx.tier == 'quick' else 300)
        explore(ctx, damage_strategy(), run_damage_case, 60 if ctx.tier == 'quick' else 3000, salt=5)


def replay(case):
    if 'damage' in case:
        run_damage_case(case)
        return
    replay_history(case, PROP, checkers)
