"""C09 - storing known content never creates a second copy (deduplication)."""

from vlib import gen
from vlib.checkers import DedupChecker

from ._hist import replay_history, run_histories

PROP = 'C09'
LEVEL = 'exploration'
RULE = (
    'Hypothesis-generated operation histories (content pool of <= 5 contents so that >= 50% of the writes repeat a known '
    'content, within one batch, across batches and across loose/packed forms; all of compress/no_holes/no_holes_read_twice; '
    'compound rule "damage the loose copy (size-changing or same-size corruption, objects up to 600 kB) then re-add its content") interpreted on the real container next to a dict model; '
    'oracle after every step: returned key == digest, <= 1 index row and <= 1 loose file per key, stored objects == distinct '
    'contents, every key reads back; for a no_holes call: unreferenced bytes per pack do not increase and packs grow by exactly '
    'the stored length of previously unknown contents. Non-trivial = history containing a no_holes call with a repeat of packed '
    'content followed by a new content, or a damaged-copy re-add; distinct by (config, op kinds, flags, parameter signature).'
)
ASSUMPTIONS = [
    'single maintenance client, operations issued sequentially',
    'do_commit=False is not generated (its contract requires a manual commit)',
    'raw reader (sqlite3 + slices + zlib) is the ground truth for what is stored',
]

WEIGHTS = {
    'add': 5,
    'addpack': 9,
    'pack': 3,
    'clean': 2,
    'damage_readd': 3,
    'loosen': 1,
    'reopen': 1,
    'delete': 1,
    'repack': 1,
    'aux_add': 2,
    'import': 2,
    'addpack_off': 1,
}


def strategy():
    return gen.history_case(WEIGHTS, min_ops=2, max_ops=25, max_size=600000, boundary_weight=1, pool_max=5)


def checkers():
    return [DedupChecker()]


def nontrivial(world):
    return 'repeat-then-new' in world.flags or 'damage-readd' in world.flags


def run_shard(ctx):
    n = 160 if ctx.tier == 'quick' else 8000
    ctx.set_budget(75 if ctx.tier == 'quick' else 1100)
    run_histories(ctx, PROP, strategy(), checkers, nontrivial, n)


def replay(case):
    replay_history(case, PROP, checkers)
