"""C17 - an I/O error in the middle of an operation leaves the store intact."""

import gc

from vlib.common import HarnessError, Violation
from vlib.crash import WARM_UPS, FaultAt, PointCounter, run_in_process
from vlib.runner import explore

from . import _crash as cr

PROP = 'C17'
LEVEL = 'fault_enumeration'
RULE = (
    'Hypothesis-generated (pre-state, operation) pairs as in C05. A counting run under the I/O shim lists ALL N calls the '
    'operation makes on the container (open for read/write, raw read/write, truncate, close, fsync, rename/replace/link/'
    'unlink/mkdir, listdir, stat, every SQL statement, SQL commit); then for EVERY k the pre-state is copied and the operation '
    're-run in-process (finally blocks run) with call k raising OSError(EIO) - or sqlite3.OperationalError for SQL - while all '
    'others succeed; raw writes additionally as "half of the buffer written, then EIO". Oracle: the call returns normally '
    '(then the state must be exactly model+effect) or raises; the handle is closed and, on the raw reader and a NEW handle: '
    'every pre-state object not targeted by a deletion complete and readable, every visible key carries the bytes of its '
    'digest, no read returns wrong bytes. Then stale packs/*.lock files are removed (counted) and - except after a failed '
    'repack - the same operation is re-run through the new handle with the fault cleared and must reach exactly model+effect '
    'with validate() clean. Non-trivial = fault on a call after the first state-changing call of the operation; distinct by '
    '(operation parameters, k, call kind, variant).'
)
ASSUMPTIONS = [
    'single faults only (as quantified); errors inside SQLite are modelled at statement / commit granularity',
    'an interrupted repack needs manual repair (stated exception): no rerun is demanded after a failed repack',
]
MAX_SHARDS = 16
POINT_LIMIT = 250


def run_pair(case, ctx=None):  # pylint: disable=too-many-locals,too-many-branches
    from disk_objectstore import Container

    prep = cr.Prepared(case, PROP)
    labels = []
    try:
        if prep.rop is None:
            return False, ['skip'], None, ['pair-skipped']
        desc = prep.describe()
        cr.copy_state(prep.master, prep.work)
        counter = PointCounter(None, '')
        import os

        counter.root = os.path.realpath(os.path.join(prep.work, 'c')) + os.sep
        report = run_in_process(prep.work, prep.case, prep.model, prep.aux_model, prep.rop, counter, trace_reads=True)
        if report['status'] != 'returned':
            raise Violation(PROP, f'unfaulted-{report["status"]}:{desc["op"]}', f'{report} [{desc}]')
        cr.inspect_state(prep.work, PROP, prep.model, prep.candidates, prep.deleted, prep.planted, context=f'unfaulted {desc}', complete=True)
        points = report['points']
        chosen, complete = cr.select_points(points, POINT_LIMIT, case['op']['a'])
        labels.append(f'op:{desc["op"]}')
        labels += [f'warm-up:{WARM_UPS[p % 8]}' for p in desc.get('prelude', [])]
        labels.append('pair-exhaustive' if complete else 'pair-sampled')
        first_mut = next((i for i, p in enumerate(points) if p[0] in cr.MUTATING_KINDS), len(points))
        is_repack = desc['op'] in ('repack', 'repack_pack')
        for k in chosen:
            variants = ['error']
            if points[k][0] == 'write':
                variants.append('short-write')
            for variant in variants:
                cr.copy_state(prep.master, prep.work)
                consumer = FaultAt(None, counter.root, k, short_write=variant == 'short-write')
                report = run_in_process(prep.work, prep.case, prep.model, prep.aux_model, prep.rop, consumer, trace_reads=True)
                gc.collect()
                if consumer.fired is None or consumer.fired[0] != points[k][0]:
                    raise HarnessError(f'fault run diverged from the counting run at k={k}: fired {consumer.fired}, expected {points[k]} ({desc})')
                context = f'{desc}: {variant} injected at call {k}/{len(points)} {points[k][1]}; outcome {report["status"]} {report.get("type", "")}'
                if report['status'] == 'violation':
                    raise Violation(PROP, 'faulted:' + report['sig'], report['msg'] + f' [{context}]')
                returned = report['status'] == 'returned'
                cr.inspect_state(prep.work, PROP, prep.model, prep.candidates, prep.deleted, prep.planted, context=context, complete=returned)
                locks = cr.remove_stale_locks(prep.work)
                if ctx is not None:
                    ctx.stats.label(f'fault-at:{points[k][0]}' + (':short' if variant != 'error' else ''))
                    ctx.stats.label('outcome:returned' if returned else f'outcome:raised:{report["type"]}')
                    if locks:
                        ctx.stats.label('stale-lock-removed')
                if not returned and not is_repack:
                    rerun = run_in_process(prep.work, prep.case, prep.model, prep.aux_model, prep.rop, PointCounter(set(), ''), warm=False)
                    if rerun['status'] != 'returned':
                        raise Violation(PROP, f'rerun-{rerun["status"]}:{desc["op"]}', f'rerun after the fault cleared: {rerun.get("repr") or rerun.get("msg")} [{context}]')
                    cr.inspect_state(prep.work, PROP, prep.model, prep.candidates, prep.deleted, prep.planted, context='rerun after ' + context, complete=True)
                    cont = Container(os.path.join(prep.work, 'c'))
                    try:
                        res = cont.validate()
                    finally:
                        cont.close()
                    if not res.is_valid():
                        raise Violation(PROP, 'rerun-validate', f'validate() after the rerun reports {res} [{context}]')
                if not returned and is_repack:
                    # an interrupted repack needs manual repair: running it again may be refused (or may complete), but it must
                    # not make things worse - everything stored is still where the index or the loose folder says
                    rerun = run_in_process(prep.work, prep.case, prep.model, prep.aux_model, prep.rop, PointCounter(set(), ''), warm=False)
                    if rerun['status'] == 'violation':
                        raise Violation(PROP, 'rerun:' + rerun['sig'], rerun['msg'] + f' [rerun after {context}]')
                    cr.inspect_state(prep.work, PROP, prep.model, prep.candidates, prep.deleted, prep.planted,
                                     context=f'repack run again ({rerun["status"]} {rerun.get("type", "")}) after ' + context, complete=False)
                    if ctx is not None:
                        ctx.stats.label(f'repack-rerun:{rerun["status"]}')
                if ctx is not None:
                    ctx.stats.record(
                        k > first_mut, [desc, k, points[k][0], variant, len(points)],
                        {'operation': desc, 'calls': len(points), 'fault_at': k, 'call': points[k][1], 'variant': variant, 'outcome': report['status']},
                    )
        return True, [desc, len(points)], None, labels
    finally:
        prep.close()


def run_shard(ctx):
    quick = ctx.tier == 'quick'
    ctx.set_budget(70 if quick else 1100)

    def run_one(case):
        _, fp, _, labels = run_pair(case, ctx)
        for label in labels:
            ctx.stats.label(label)
        return False, fp, None, []

    explore(ctx, cr.strategy(max_pre=6), run_one, 30 if quick else 4000)
    ctx.stats.extra['pairs'] = ctx.stats.hist.get('pair-exhaustive', 0) + ctx.stats.hist.get('pair-sampled', 0)
    ctx.stats.evaluations -= ctx.stats.extra['pairs'] + ctx.stats.hist.get('pair-skipped', 0)


def replay(case):
    run_pair(case)
