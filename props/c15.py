"""C15 - a backup taken while the container is in use is complete and consistent."""

import io
import os
import shutil

from hypothesis import strategies as st

from vlib import gen
from vlib.common import HarnessError, Violation, config_kwargs, content_of, digest, new_dir, rm_dir, short
from vlib.interp import MODES_PACK, _mode
from vlib.rawread import RawState, check_consistency
from vlib.runner import explore
from vlib.sched import Scheduler
from vlib.shim import Shim

PROP = 'C15'
LEVEL = 'exploration'
RULE = (
    'Scenario on the deterministic baton scheduler: actor BACKUP runs the real BackupManager.backup_auto_folders -> '
    'backup_container with the REAL rsync; its yield points are the boundaries of the copy phases (before loose, before the '
    'index dump, between dump and index transfer, before packs, before "everything else", before the final rename) and, '
    'through a subclass overriding only call_rsync, a split point INSIDE the loose and packs phases (a first real rsync pass '
    'with a generated subset of entries excluded, yield, then the original call: every resulting tree is one a single rsync '
    'run could produce, since each file is read once at some instant of the phase). Other actors, each with its own handle '
    'and pre-emptible at every file-system call / SQL statement: 1-2 loose writers and one maintenance client running a '
    'generated sequence out of pack_all_loose(mode, clean_loose_per_pack), clean_storage(), add_objects_to_pack(compress). '
    'Optionally a previous backup exists (incremental, --link-dest) and optionally one more client just keeps a handle open '
    'for the whole scenario (its connection keeps SQLite from checkpointing the WAL into packs.idx). Schedule = Hypothesis list of (actor, run length). '
    'Oracle, only when the backup returns successfully (failures are counted as inconclusive): the backup folder opened with '
    'a fresh Container holds every object that existed when the backup started with exactly its bytes; every key of '
    'list_all_objects() reads back as the content with that digest; validate() clean; raw reader consistent. Non-trivial = a '
    'pack / clean / direct-to-pack commit or unlink falls strictly between the first and the last copy phase.'
)
ASSUMPTIONS = [
    'rsync internals are not decomposed further than the split point; only local destinations',
    'backup is not run concurrently with repack or delete (as docs/pages/backup.md requires)',
    'a backup that fails (BackupError) is inconclusive, not a violation',
]
MAX_SHARDS = 16
MAINT = ('pack', 'pack_clean', 'clean', 'addpack', 'addpack_z')


def strategy():
    return st.fixed_dictionaries(
        {
            'cfg': gen.config(targets=(1, 64, 1000, 4 * 1024**3)),
            'pool': st.lists(gen.content_desc(2000, 0), min_size=4, max_size=10),
            # mostly a handful of objects; sometimes enough of them for two-digit pack numbers (with a small pack_size_target)
            'pre': st.one_of(
                st.lists(st.tuples(st.integers(0, 9), st.integers(0, 3)), min_size=1, max_size=6),
                st.lists(st.tuples(st.integers(0, 9), st.integers(0, 3)), min_size=1, max_size=6),
                st.lists(st.tuples(st.integers(0, 9), st.integers(1, 3)), min_size=12, max_size=16),
            ),
            'writers': st.lists(st.lists(st.integers(0, 9), min_size=1, max_size=3), min_size=1, max_size=2),
            'maint': st.lists(st.tuples(st.sampled_from(MAINT), st.integers(0, 9), st.integers(0, 5)), min_size=3, max_size=8),
            'split_loose': st.integers(0, 65535),
            'split_packs': st.integers(0, 65535),
            'incremental': st.booleans(),
            # incremental only: the previous backup was taken within the same wall-clock second as this one's index dump (small
            # containers are backed up in well under a second); simulated by giving the previous backup's index the dump's mtime
            'same_second': st.booleans(),
            'holder': st.sampled_from([True, True, False]),
            'early_maint': st.sampled_from([0, 0, 5, 30, 100, 10**9]),
            # -1 = until the actor's next operation boundary: whole maintenance operations / adds are placed between the
            # backup's yield points; positive run lengths pre-empt them in the middle
            'schedule': st.lists(
                st.one_of(
                    st.tuples(st.just('backup'), st.sampled_from((1, 1, 1, 2))),
                    st.tuples(st.just('backup'), st.just(1)),
                    st.tuples(st.just('maint'), st.just(-1)),
                    st.tuples(st.just('maint'), st.sampled_from((-1, -1, 3, 10, 30, 100))),
                    st.tuples(st.just('w'), st.sampled_from((-1, -1, 5))),
                ),
                min_size=10,
                max_size=40,
            ),
        }
    )


def run_case(case):  # pylint: disable=too-many-locals,too-many-statements,too-many-branches
    from disk_objectstore import Container, backup_utils

    if shutil.which('rsync') is None:
        raise HarnessError('rsync is not available: C15 is inconclusive in this environment')
    cfg = case['cfg']
    hash_type = cfg['hash_type']
    pool = [content_of(d) + b'#%d' % i for i, d in enumerate(case['pool'])]
    universe = {digest(hash_type, d): d for d in pool}
    root = new_dir('c15')
    path = os.path.join(root, 'c')
    dest = os.path.join(root, 'backups')
    os.makedirs(dest)
    setup = Container(path)
    setup.init_container(**config_kwargs(cfg))
    stored = {}
    for position, (idx, form) in enumerate(case['pre']):
        data = pool[idx % len(pool)]
        if len(case['pre']) > 10:
            data += b'@%d' % position  # all distinct: as many packs as objects when pack_size_target is tiny
            universe[digest(hash_type, data)] = data
        if form in (0, 3):
            key = setup.add_object(data)
        if form in (1, 2, 3):
            key = setup.add_objects_to_pack([data], compress=form == 2)[0]
        stored[key] = data
    if case['incremental']:
        # the previous backup is given an old, fixed age (names and mtimes) so that rsync's size+mtime quick check never
        # depends on two backups falling into the same wall-clock second
        setup.close()
        _age(path)
        manager = backup_utils.BackupManager(dest)
        manager.backup_auto_folders(lambda p, prev: backup_utils.backup_container(manager, setup, p, prev))
        names = [n for n in os.listdir(dest) if n.startswith('backup_')]
        os.rename(os.path.join(dest, names[0]), os.path.join(dest, 'backup_20000101000000_prev'))
        _age(os.path.join(dest, 'backup_20000101000000_prev'))
        link = os.path.join(dest, 'last-backup')
        if os.path.islink(link):
            os.remove(link)
    setup.close()
    schedule = list(case['schedule'])
    if case.get('early_maint'):
        # the backup starts (first yield point = before the loose copy), then the maintenance client runs for a while
        schedule = [('backup', 1), ('maint', case['early_maint'])] + schedule
    sched = Scheduler(schedule, watchdog=180)
    # a client that simply keeps the container open (e.g. a daemon): its connection prevents SQLite from checkpointing the WAL
    # into packs.idx when the other clients close theirs
    holder = None
    if case.get('holder'):
        holder = Container(path)
        holder.has_objects(list(stored)[:1] or ['0' * 40])
    state = {'at_start': None, 'result': None, 'error': None}

    def writer(script):
        def body(actor):
            cont = Container(path)
            try:
                for idx in script:
                    data = pool[idx % len(pool)]
                    key = cont.add_object(data)
                    stored[key] = data
                    sched.boundary(actor)
            finally:
                cont.close()

        return body

    def maintenance(actor):
        cont = Container(path)
        try:
            for number, (kind, idx, mode) in enumerate(case['maint']):
                sched.mark(actor.name, 'op-start', kind)
                if kind in ('pack', 'pack_clean'):
                    # this client first stores something new itself, so that every packing step has work to do
                    fresh = pool[idx % len(pool)] + b'-maint-%d' % number
                    key = cont.add_object(fresh)
                    stored[key] = fresh
                    universe[key] = fresh
                    cont.pack_all_loose(compress=_mode(MODES_PACK[mode % len(MODES_PACK)]), clean_loose_per_pack=kind == 'pack_clean')
                elif kind == 'clean':
                    cont.clean_storage()
                else:
                    data = pool[idx % len(pool)]
                    key = cont.add_objects_to_pack([data, pool[(idx + 1) % len(pool)]], compress=kind == 'addpack_z')
                    stored[key[0]] = data
                    stored[key[1]] = pool[(idx + 1) % len(pool)]
                sched.mark(actor.name, 'op-end', kind)
                sched.boundary(actor)
        finally:
            cont.close()

    def backup(actor):
        cont = Container(path)
        real_dump = backup_utils._sqlite_backup  # pylint: disable=protected-access

        class SplitManager(backup_utils.BackupManager):
            def call_rsync(self, src, dest_path, link_dest=None, src_trailing_slash=False, dest_trailing_slash=False, extra_args=None):  # pylint: disable=arguments-differ,too-many-arguments
                name = os.path.basename(str(src))
                phase = {'loose': 'loose', 'packs': 'packs', 'packs.idx': 'index'}.get(name, 'rest')
                sched.yield_point(actor, f'before-{phase}')
                if phase == 'index' and case['incremental'] and case.get('same_second'):
                    prev_idx = os.path.join(dest, 'backup_20000101000000_prev', 'packs.idx')
                    if os.path.exists(prev_idx):
                        info = os.stat(src)
                        os.utime(prev_idx, ns=(info.st_atime_ns, info.st_mtime_ns))
                mask = {'loose': case['split_loose'], 'packs': case['split_packs']}.get(phase, 0)
                if mask:
                    entries = sorted(os.listdir(src))
                    excluded = [e for i, e in enumerate(entries) if mask >> (i % 16) & 1]
                    if excluded and len(excluded) < len(entries):
                        extra = list(extra_args or [])
                        for entry in excluded:
                            extra += ['--exclude', entry]
                        super().call_rsync(src, dest_path, link_dest, src_trailing_slash, dest_trailing_slash, extra)
                        sched.yield_point(actor, f'inside-{phase}')
                super().call_rsync(src, dest_path, link_dest, src_trailing_slash, dest_trailing_slash, extra_args)

            def run_cmd(self, args):
                if args and args[0] == 'mv':
                    sched.yield_point(actor, 'before-final-rename')
                return super().run_cmd(args)

        def dump(src, dst):
            sched.yield_point(actor, 'before-dump')
            return real_dump(src, dst)

        backup_utils._sqlite_backup = dump  # pylint: disable=protected-access
        try:
            state['at_start'] = dict(stored)
            sched.mark(actor.name, 'op-start', 'backup')
            manager = SplitManager(dest)
            try:
                manager.backup_auto_folders(lambda p, prev: backup_utils.backup_container(manager, cont, p, prev))
                state['result'] = 'ok'
            except backup_utils.BackupError as exc:
                state['result'] = 'failed'
                state['error'] = repr(exc)
            sched.mark(actor.name, 'op-end', 'backup')
        finally:
            backup_utils._sqlite_backup = real_dump  # pylint: disable=protected-access
            cont.close()

    for i, script in enumerate(case['writers']):
        sched.add_actor(f'w{i}', writer(script))
    sched.add_actor('maint', maintenance)
    sched.add_actor('backup', backup)
    shim = Shim(path, sched, trace_reads=True)
    labels = ['scenario', 'incremental' if case['incremental'] else 'full'] + (['previous-backup-in-the-same-second'] if case['incremental'] and case.get('same_second') else []) + (['long-open-holder'] if case.get('holder') else [])
    try:
        shim.install()
        try:
            sched.run(shim)
        finally:
            shim.uninstall()
            if holder is not None:
                holder.close()
        trace = sched.trace
        for actor in sched.order:
            if actor.error is not None:
                if isinstance(actor.error, HarnessError):
                    raise actor.error
                raise viol(f'actor-raised:{actor.name.rstrip("0123456789")}:{type(actor.error).__name__}', f'{actor.name} raised {actor.error!r}\n{(actor.error_tb or "")[-600:]}', trace)
        inside = concurrent_inside(trace)
        if state['result'] != 'ok':
            labels.append('inconclusive-backup-failed')
            return False, ['failed'], {'backup': state['result'], 'error': state['error']}, labels
        names = sorted(n for n in os.listdir(dest) if n.startswith('backup_'))
        folder = os.path.join(dest, names[-1])
        must = state['at_start']
        probe = Container(folder)
        try:
            if not probe.is_initialised:
                missing = [n for n in ('config.json', 'loose', 'packs', 'duplicates', 'sandbox', 'packs.idx') if not os.path.exists(os.path.join(folder, n))]
                raise viol('backup-not-a-container', f'the completed backup is not an initialised container: missing {missing}', trace)
        finally:
            probe.close()
        raw = RawState(folder)
        bad = check_consistency(raw)
        if bad:
            raise viol(f'backup-raw:{bad[0][0]}', f'backup folder inconsistent: {bad[0][1]}', trace)
        copy = Container(folder)
        try:
            for key, data in must.items():
                try:
                    got = copy.get_object_content(key)
                except Exception as exc:  # pylint: disable=broad-except
                    raise viol('backup-missing', f'object {key[:8]} existed when the backup started but the backup cannot read it: {exc!r}', trace) from exc
                if got != data:
                    raise viol('backup-wrong-bytes', f'object {key[:8]} reads {short(got)} from the backup', trace)
            for key in copy.list_all_objects():
                try:
                    got = copy.get_object_content(key)
                except Exception as exc:  # pylint: disable=broad-except
                    raise viol('backup-exposed-unreadable', f'backup exposes key {key[:8]} but cannot read it: {exc!r}', trace) from exc
                if key not in universe or got != universe[key]:
                    raise viol('backup-exposed-wrong', f'backup exposes key {key[:8]} which reads {short(got)} ({len(got)} bytes)', trace)
            res = copy.validate()
            if not res.is_valid():
                raise viol('backup-validate', f'validate() on the backup reports {res}', trace)
        finally:
            copy.close()
    finally:
        rm_dir(root)
    for name, count in inside.items():
        if count:
            labels.append(f'inside-backup:{name}')
    for gap in commit_gaps(trace):
        labels.append(f'maint-commit-after:{gap}')
    phases = [b for a, k, b in trace if a == 'backup' and k == 'phase']
    if any(p.startswith('inside-') for p in phases):
        labels.append('split-inside-phase')
    nontrivial = bool(inside['maint-commit'] or inside['maint-unlink'])
    fp = [case['incremental'], [(a, k, b if k == 'phase' else '') for a, k, b in trace if k in ('phase', 'sql-commit', 'unlink', 'rename')]]
    sample = {'incremental': case['incremental'], 'maintenance': [m[0] for m in case['maint']], 'phases': phases, 'concurrent_inside_backup': inside,
              'events': len(trace)}
    return nontrivial, fp, sample, labels


def commit_gaps(trace):
    """The backup yield points after which (before the next one) a maintenance commit happened."""
    gaps = set()
    last = None
    for actor, kind, brief in trace:
        if actor == 'backup' and kind == 'phase':
            last = brief
        elif actor == 'maint' and kind == 'sql-commit' and last is not None and last != 'before-final-rename':
            gaps.add(last)
    return sorted(gaps)


def _age(folder, when=946684800):
    for dirpath, _, files in os.walk(folder):
        for name in files:
            os.utime(os.path.join(dirpath, name), (when, when))


def concurrent_inside(trace):
    """Events of other actors strictly between the first and the last copy phase of the backup."""
    first = next((i for i, (a, k, b) in enumerate(trace) if a == 'backup' and k == 'phase' and b == 'before-loose'), None)
    last = next((i for i, (a, k, b) in reversed(list(enumerate(trace))) if a == 'backup' and k == 'phase' and b == 'before-rest'), None)
    out = {'maint-commit': 0, 'maint-unlink': 0, 'writer-rename': 0, 'maint-pack-write': 0}
    if first is None or last is None:
        return out
    for actor, kind, brief in trace[first + 1 : last]:
        if actor == 'maint' and kind == 'sql-commit':
            out['maint-commit'] += 1
        if actor == 'maint' and kind == 'unlink' and 'loose/' in brief:
            out['maint-unlink'] += 1
        if actor == 'maint' and kind == 'write' and 'packs/' in brief:
            out['maint-pack-write'] += 1
        if actor.startswith('w') and kind == 'rename':
            out['writer-rename'] += 1
    return out


def viol(sig, msg, trace):
    exc = Violation(PROP, sig, msg)
    exc.log = [f'{a}: {b}' for a, k, b in trace if k != 'stat'][-150:]
    return exc


def run_shard(ctx):
    n = 40 if ctx.tier == 'quick' else 3200
    ctx.set_budget(75 if ctx.tier == 'quick' else 1100)
    explore(ctx, strategy(), run_case, n)


def replay(case):
    run_case(case)
